"""C08 — the receive buffer reassembles any fragment sequence into the original bytes.
spec: RecvBuf.tla; MC_RecvBuf (design + liveness), Gen_RecvBuf (all call sequences), Trace_RecvBuf."""
import json, os
import vlib

MC_CFG = """SPECIFICATION MCSpec
INVARIANT Inv
PROPERTY AllEventuallyRead
CHECK_DEADLOCK FALSE
"""
GEN_CFG = """INIT GenInit
NEXT GenNext
INVARIANT Emit
CHECK_DEADLOCK FALSE
"""
TRACE_CFG = """INIT TraceInit
NEXT TraceNext
INVARIANT Inv
POSTCONDITION TraceAccepted
CHECK_DEADLOCK FALSE
"""


def signature(rej):
    run, at = rej["run"], rej["at"]
    ev = run[at - 1] if 0 < at <= len(run) else {"ev": "eof"}
    if ev.get("ev") == "panic":
        return "C08/RecvBuf/panic/%s" % ev["op"][0], "panic in RecvBuf on %s: %s" % (ev["op"], ev.get("msg", "")[:200])
    return "C08/RecvBuf/%s/%s" % (ev.get("ev"), rej["reason"].split()[0]), \
        "event %d (%s) is not a behaviour of RecvBuf.tla: %s" % (at, json.dumps(ev)[:300], rej["reason"])


def nontrivial(tracefile):
    """distinct runs in which at least one byte was handed to the reader."""
    seen, cur, hit = set(), [], False
    with open(tracefile) as f:
        for line in f:
            if '"ev":"reset"' in line:
                if cur and hit:
                    seen.add(hash(tuple(cur)))
                cur, hit = [], False
            else:
                cur.append(line)
                if ('"ev":"read"' in line or '"ev":"next"' in line or '"ev":"cread"' in line) and '"n":0' not in line:
                    hit = True
    if cur and hit:
        seen.add(hash(tuple(cur)))
    return len(seen)


def _validate(rep, name, trace):
    r = vlib.validate_traces("C08", "Trace_RecvBuf", TRACE_CFG, trace)
    rep.add_traces(name, r["runs"], nontrivial(trace), r["events"])
    with open(trace) as f:
        lines = [l for _, l in zip(range(6), f)]
    rep.sample({"part": name, "first_events": [json.loads(x) for x in lines]})
    for rej in r["rejected"]:
        sig, what = signature(rej)
        rep.violation(sig, what, {"component": "recvbuf", "rejected_at": rej["at"], "reason": rej["reason"], "trace": rej["run"]})


def run(tier, rep):
    wd = vlib.workdir("C08")
    quick = tier == "quick"
    st = vlib.tlc_mc("C08", "MC_RecvBuf", MC_CFG, {"N": 6 if quick else 8, "Reads": "{1, 2, 8}"},
                     need_actions=["Recv", "Read", "Next"])
    rep.add_mc("MC_RecvBuf", st)
    for name, consts in [("n4", {"N": 4, "Reads": "{1, 2, 4}", "Depth": 4 if quick else 5}),
                         ("n5", {"N": 5, "Reads": "{1, 3, 5}", "Depth": 3 if quick else 4})]:
        beh = os.path.join(wd, "beh_%s.ndjson" % name)
        trace = os.path.join(wd, "trace_%s.ndjson" % name)
        g = vlib.tlc_gen("C08", "Gen_RecvBuf", GEN_CFG, consts, beh)
        rep.add_mc("Gen_RecvBuf/" + name, g)
        vlib.vh(["recvbuf-replay", beh, trace])
        _validate(rep, "allpaths/" + name, trace)
    beh = os.path.join(wd, "beh_random.ndjson")
    trace = os.path.join(wd, "trace_random.ndjson")
    vlib.vh(["recvbuf-random", vlib.seed(), 4000 if quick else 60000, 60, 40, beh])
    vlib.vh(["recvbuf-replay", beh, trace])
    _validate(rep, "random", trace)
    # the same buffer behind the crypto stream's receive API (CryptoStreamIncoming::recv_frame + CryptoStreamReader::poll_read)
    for name, behf in (("crypto/allpaths-n4", os.path.join(wd, "beh_n4.ndjson")), ("crypto/random", beh)):
        ctrace = os.path.join(wd, "trace_%s.ndjson" % name.replace("/", "_"))
        vlib.vh(["recvbuf-replay", behf, ctrace, "crypto"])
        _validate(rep, name, ctrace)
    rep.cov["rule"] = ("call sequences (recv of every slice incl. empty/duplicate/overlapping/already-read, try_read of several sizes, try_next) "
                       "enumerated by TLC to the stated depth plus seeded random long streams; each executed on the real RecvBuf; every recorded "
                       "step validated by TLC against RecvBuf.tla (return value, nread, largest_offset, available, is_readable; bytes compared by the "
                       "harness); the same sequences are also driven through the crypto stream (recv_frame / poll_read: only the bytes read are visible there). distinct_nontrivial = distinct runs that handed at least one byte to the reader.")
    rep.cov["exhaustive"] = True
    rep.assumptions += ["fragments are slices of one underlying byte sequence (position-determined content)"]


def replay(path):
    v = json.load(open(path))
    wd = vlib.workdir("C08")
    ops = []
    for e in v["payload"]["trace"][1:]:
        k = e["ev"]
        if k == "recv": ops.append(["v", e["off"], e["len"]])
        elif k == "read": ops.append(["r", e["k"]])
        elif k == "next": ops.append(["n"])
        elif k == "panic": ops.append(e["op"])
    beh, trace = os.path.join(wd, "replay_beh.ndjson"), os.path.join(wd, "replay_trace.ndjson")
    open(beh, "w").write(json.dumps(ops) + "\n")
    vlib.vh(["recvbuf-replay", beh, trace])
    r = vlib.validate_traces("C08", "Trace_RecvBuf", TRACE_CFG, trace, nchunks=1)
    if r["rejected"]:
        print("  reproduced:", *signature(r["rejected"][0]))
        print("VIOLATION property=C08 replay=%s" % path)
        return 1
    print("not reproduced on the current tree")
    return 0
