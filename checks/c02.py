"""C02 — a connection survives an adversarial network without corrupting data.
specs: Conn.tla (contract over network / packet-log / application events), MC_Conn (design), Gen_Conn (fault schedules),
Trace_Conn.  Harness: vh-sim (real QuicClient + QuicListeners over an in-memory datagram network under virtual time)."""
import json, os, random
import vlib
from checks import sim

BINS = ["vh-sim"]
MC_CFG = "SPECIFICATION MCSpec\nINVARIANT MCInv\nPROPERTY AllDelivered\nCHECK_DEADLOCK FALSE\n"
TRACE_CFG = "INIT TraceInit\nNEXT TraceNext\nINVARIANT SoftContract\nPOSTCONDITION TraceAccepted\nCHECK_DEADLOCK FALSE\n"


def is_hit(line):
    return '"fate":"' in line and '"fate":"deliver"' not in line


def base(seed, **kw):
    sc = {"seed": seed, "bounded": True, "bi": 1, "uni": 1, "size": 3000, "chunk": 1000, "faults": {}, "qlog": "capture",
          "qkeep": "pkt", "deadline_ms": 90000, "lat_ms": 5, "max_segments": 4}
    sc.update(kw)
    return sc


def random_scenarios(seed, n_bounded, n_unbounded, quick=True):
    rnd = random.Random(seed)
    out = []
    for i in range(n_bounded):
        size = rnd.choice([0, 1, 700, 5000, 20000, 60000] + ([] if quick else [200000]))
        f = {"drop": rnd.choice([0, 5, 10, 25]), "dup": rnd.choice([0, 3, 10]), "delay": rnd.choice([0, 5, 20]),
             "flip": rnd.choice([0, 3, 10]), "trunc": rnd.choice([0, 2, 8]), "until_ms": rnd.choice([300, 1000, 3000])}
        params = {}
        if rnd.random() < 0.5:
            params = {"max_data": rnd.choice([2000, 20000, 1 << 20]), "bidi_local": rnd.choice([1500, 10000, 1 << 20]),
                      "bidi_remote": rnd.choice([1500, 10000, 1 << 20]), "uni": rnd.choice([1500, 10000, 1 << 20]),
                      "streams_bidi": rnd.choice([1, 2, 100]), "streams_uni": rnd.choice([1, 3, 100])}
        out.append(base(seed * 100000 + i, size=size, chunk=rnd.choice([1000, 4096, 50000]), bi=rnd.choice([1, 1, 2, 4, 8]),
                        uni=rnd.choice([0, 1, 3]), faults=f, lat_ms=rnd.choice([1, 5, 30]), max_segments=rnd.choice([1, 4, 64]),
                        sparams=dict(params), cparams=dict(params), deadline_ms=240000))
    # replays: a genuine datagram is delivered again long after the receiver acknowledged it and rotated its record out of the
    # journal (records rotate when acknowledgements keep arriving 3 PTO later: the application keeps the connection busy)
    for i in range(max(6, n_bounded // 6)):
        f = {"c2s": {}, "s2c": {}}
        for _ in range(4):
            f[rnd.choice(["c2s", "c2s", "s2c"])][str(rnd.randrange(3, 16))] = ["duplate", rnd.choice([400, 700, 1000, 1400])]
        out.append(base(seed * 100000 + 70000 + i, size=30000, chunk=1000, pace_ms=rnd.choice([30, 50]), bi=1, uni=1, faults=f,
                        deadline_ms=60000))
    for i in range(n_unbounded):
        kind = rnd.choice(["bh_c2s", "bh_s2c", "bh_both", "corrupt"])
        at = rnd.choice([0, 1, 3, 6, 12, 30])
        if kind == "corrupt":
            f = {"flip": 100}
        else:
            f = {"blackhole": {"c2s": at} if kind == "bh_c2s" else {"s2c": at} if kind == "bh_s2c" else {"c2s": at, "s2c": at}}
        idle = rnd.choice([1000, 1500])
        out.append(base(seed * 100000 + 50000 + i, bounded=False, size=rnd.choice([3000, 40000]), faults=f,
                        sparams={"idle_ms": idle}, cparams={"idle_ms": idle}, deadline_ms=3 * idle + 3000))
    return out


def run(tier, rep):
    wd = vlib.workdir("C02")
    quick = tier == "quick"
    st = vlib.tlc_mc("C02", "MC_Conn", MC_CFG, {"NItems": 2, "MaxFaults": 2, "MaxPn": 4} if quick else {"NItems": 3, "MaxFaults": 2, "MaxPn": 5},
                     need_actions=["Assemble", "SendDatagram", "DoDrop", "DoDup", "DoDamage", "DoDeliver"], workers=min(vlib.NCPU, 8))
    rep.add_mc("MC_Conn", st)
    # fault schedules enumerated by TLC: every assignment of network actions to the first K datagrams of each direction
    scs = []
    # (a) the handshake flights: first K datagrams of each direction, at most 2 faults; (b) the first 1-RTT datagrams, 1 fault
    for tag, consts in (("hs", {"K": 3 if quick else 5, "F": 2, "Full": "FALSE" if quick else "TRUE", "Off": 0}),
                        ("data", {"K": 4 if quick else 5, "F": 1 if quick else 2, "Full": "FALSE" if quick else "TRUE", "Off": 3})):
        beh = os.path.join(wd, "sched_%s.ndjson" % tag)
        g = vlib.tlc_gen("C02", "Gen_Conn", sim.GEN_CFG, consts, beh, workers=4)
        rep.add_mc("Gen_Conn/" + tag, g)
        with open(beh) as f:
            for i, line in enumerate(f):
                scs.append(base(vlib.seed() * 1000000 + len(scs), faults=sim.faults_from_sched(json.loads(line))))
    trace, _ = sim.run_sim("C02", "sched", scs)
    sim.validate(rep, "C02", "Conn", "Trace_Conn", TRACE_CFG, trace, "tlc-fault-schedules", is_hit)
    # seeded random long schedules: bounded-fault profiles (liveness clause) and unbounded ones (safety + "told within bounded time")
    # (the thorough tier deepens the TLC-enumerated schedules; the random profiles stay at the size that was swept over several seeds)
    scs = random_scenarios(vlib.seed(), 40, 6 if quick else 12, True)
    trace, _ = sim.run_sim("C02", "random", scs)
    sim.validate(rep, "C02", "Conn", "Trace_Conn", TRACE_CFG, trace, "random-profiles", is_hit)
    rep.cov["rule"] = ("fault schedules (deliver/drop/duplicate/delay/bit-flip/truncate per datagram index and direction) enumerated by TLC over the "
                       "first K datagrams of each direction with at most 2 faults, plus seeded random bounded-fault profiles (transfer sizes 0..200 KB, "
                       "1-8 bidi + 0-3 uni streams, several flow-control parameter sets, 1/4/64 segments per send) and unbounded ones (one- or two-way "
                       "blackhole, everything corrupted); each run is the real client+server stack over the in-memory network under virtual time; every "
                       "recorded event (datagrams with their coalesced packets and fate, deliveries, packet_sent/packet_received of both endpoints, "
                       "application writes/reads with content check, end of stream, completion) is judged by TLC against Conn.tla. "
                       "distinct_nontrivial = distinct runs in which the network applied at least one fault.")
    rep.assumptions += ["a packet is identified on the wire by FIFO order per packet type against the sender's packet_sent log, cross-checked by its length",
                        "TLS internals are opaque; AEAD is trusted to reject modified packets (what is checked is that the stack never logs them as received)"]


def replay(path):
    v = json.load(open(path))
    sc = v["payload"]["scenario"]
    trace, _ = sim.run_sim("C02", "replay", [sc], nproc=1)
    r = vlib.validate_traces("C02", "Trace_Conn", TRACE_CFG, trace, nchunks=1)
    if r["rejected"]:
        print("  reproduced:", *sim.classify("C02", "Conn", r["rejected"][0]))
        print("VIOLATION property=C02 replay=%s" % path)
        return 1
    print("not reproduced on the current tree (connection ids / TLS randomness are not seedable; the stored trace excerpt is the evidence)")
    return 0
