"""Sent-journal part shared by C07 (packet numbers never reused) and C10 (ack -> frames)."""
import vlib
from checks import common

MC = common.mc_cfg(props=("PnNeverReused", "DeliveredOnce", "AckedNeverLost"))
TR = common.trace_cfg(props=("PnNeverReused", "DeliveredOnce", "AckedNeverLost"))


def hit(line):
    return '"ev":"ack"' in line and '"frames":[]' not in line


def to_ops(trace):
    ops = []
    for e in trace[1:]:
        k = e["ev"]
        if k == "send": ops.append(["s", e["n"], e["triv"], e["rt"], e["et"]])
        elif k == "abandon": ops.append(["b", 0])
        elif k == "rotbegin": ops.append(["rb"])
        elif k == "largest": ops.append(["u", e["L"]])
        elif k == "ack": ops.append(["a", e["pn"]])
        elif k == "loss": ops.append(["l", e["pn"]])
        elif k == "fastretx": ops.append(["f"])
        elif k == "rotend": ops.append(["re"])
        elif k == "tick": ops.append(["t", e["d"]])
        elif k == "panic": ops.append(e["op"])
    return ops


def run(pid, tier, rep):
    quick = tier == "quick"
    st = vlib.tlc_mc(pid, "MC_SentJournal", MC,
                     {"MaxPn": 3, "MaxNow": 4 if quick else 6, "NFrames": "{0, 1, 2}", "RTs": "{1}", "ETs": "{3}", "Ticks": "{2}"},
                     need_actions=["Send", "Abandon", "RotBegin", "UpdateLargest", "Ack", "Loss", "FastRetx", "RotEnd", "Tick"])
    rep.add_mc("MC_SentJournal", st)
    common.gen_replay_validate(rep, pid, "SentJournal", "Gen_SentJournal",
                               {"MaxPn": 3, "NFrames": "{0, 1, 2}", "RTs": "{1}", "ETs": "{3}", "Ticks": "{2}", "Depth": 6 if quick else 7},
                               "sentjournal-replay", "Trace_SentJournal", TR, "sentjournal/allpaths", hit)


def replay(pid, path):
    return common.generic_replay(pid, "SentJournal", "sentjournal-replay", "Trace_SentJournal", TR, path, to_ops)
