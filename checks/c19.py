"""C19 — datagrams are carried whole, within the peer's size limit, or not at all.
spec: Datagram.tla; MC_Datagram (design: code-following and intended variants, liveness), Gen_Datagram (call sequences),
Trace_Datagram (component runs on the real DatagramFlow + connection runs of the real client/server stack)."""
import json, os, random
from concurrent.futures import ThreadPoolExecutor
import vlib
from checks import common

BINS = ["vh-datagram"]
PID = "C19"
COMP = "Datagram"
SOFT = ("SoftFrameWithinPeerMax", "SoftFullPacketProgress", "SoftAcceptedNeverKillsPeer", "SoftAcceptedEventuallyOnWire", "SoftHeadOfLineBlocked")
TRACE_CFG = common.trace_cfg(invs=("Inv",) + SOFT)
TRACE_CONSTS = {"Intended": "FALSE"}
MC_CODE = "SPECIFICATION MCSpec\nINVARIANT Inv\nPROPERTY AcceptedEventuallyOnWire\nCHECK_DEADLOCK FALSE\n"
MC_INTENDED = ("SPECIFICATION MCSpec\nINVARIANT InvFull\nINVARIANT AcceptedNeverKillsPeer\n"
               "PROPERTY AcceptedEventuallyOnWire\nCHECK_DEADLOCK FALSE\n")
NEED = ["Setup", "NewWriter", "NewReader", "Send", "Pack", "PackFull", "Lose", "Deliver", "Inject", "Read", "ConnError"]
ALL_OPS = '{"send", "pack", "packfull", "lose", "deliver", "inject", "read", "connerr"}'
MAXPKT = 1100       # frame space of an empty 1-RTT packet is > 1100 for the 1200-byte minimum MTU


def hit(line):
    """a DATAGRAM frame was written into a packet / seen on the wire, or a datagram reached an application"""
    return ('"ev":"pack"' in line and '"ret":"ok"' in line) or ('"ev":"read"' in line and '"ret":"ok"' in line) \
        or '"ev":"cwire"' in line or '"ev":"cread' in line


def mc_jobs(quick):
    base = {"MaxPkt": 100, "Spaces": "{}", "InjSizes": "{65}", "MaxInj": 1}
    code = dict(base, Intended="FALSE", PeerMaxes="{0, 66}", Sizes="{0, 65}" if quick else "{0, 63, 64, 65}",
                MaxSend=2)
    intended = dict(base, Intended="TRUE", PeerMaxes="{0, 66}", Sizes="{65, 500}" if quick else "{0, 64, 65, 500}",
                    MaxSend=2)
    return [("MC_Datagram/code", PID + "/mc_code", MC_CODE, code), ("MC_Datagram/intended", PID + "/mc_intended", MC_INTENDED, intended)]


def gen_jobs(quick):
    g = lambda **k: dict({"Intended": "FALSE", "SendBase": "{0, 1, 70000}", "SendAround": "{0, 1, 2, 3, 4, 5}", "MaxPktG": MAXPKT, "LocalMaxes": "{}"}, **k)
    jobs = [
        # sender -> network -> receiver with localMax = peerMax around the 1/2-byte varint boundary (limit 66)
        ("pair66", g(PeerMaxes="{66}", MaxPktG=100, Ops='{"send", "pack", "deliver", "read"}', Depth=3 if quick else 4), None),
        # the whole path send -> pack -> deliver -> read, two datagrams deep, both varint lengths
        ("e2e", g(PeerMaxes="{66}", MaxPktG=100, SendBase="{0}", SendAround="{3}", Ops='{"send", "pack", "lose", "deliver", "read"}',
                  Depth=4 if quick else 6), None),
        # every limit class incl. 0 = disabled, tiny, the 2/4-byte varint boundary, the maximum; no injected frames
        ("limits", g(PeerMaxes="{0, 8, 16390}" if quick else "{0, 1, 8, 64, 1200, 16390, 65535}",
                     Ops='{"send", "pack", "packfull", "lose", "deliver", "read", "connerr"}', Depth=3), None),
        # receive side: frames built by the peer around our limit, both forms
        ("recv", g(PeerMaxes="{66}", LocalMaxes="{0, 66, 16390}" if quick else "{0, 1, 8, 66, 1200, 16390, 65535}",
                   Ops='{"inject", "read", "connerr"}', Depth=2 if quick else 3), None),
        # random deep walks over everything
        ("walks", g(PeerMaxes="{0, 8, 66, 1200, 16390, 65535}", Ops=ALL_OPS, Depth=14 if quick else 24),
         {"num": 100 if quick else 1500, "depth": 40}),       # every last-step alternative is emitted: ~30 behaviours per walk
        # random deep walks of an undisturbed connection (no injected frames, no connection error): deliveries and reads dominate
        ("walks_e2e", g(PeerMaxes="{8, 66, 1200, 16390, 65535}", SendAround="{0, 1, 2, 3, 4}", Ops='{"send", "pack", "packfull", "lose", "deliver", "read"}',
                        Depth=14 if quick else 24), {"num": 150 if quick else 2000, "depth": 40}),
    ]
    return jobs


def scenarios(quick):
    rnd = random.Random(vlib.seed())
    sc = [
        {"seed": 1, "cmax": 65535, "smax": 65535, "sizes": [10, 0, 100, 1000, 1], "drop": 0, "wait_ms": 3000},
        {"seed": 2, "cmax": 1200, "smax": 0, "sizes": [10], "drop": 0, "wait_ms": 1000},
        {"seed": 3, "cmax": 0, "smax": 1200, "sizes": [1, 500, 1000, 1198, 1199, 1200], "drop": 0, "wait_ms": 3000},
        {"seed": 4, "cmax": 100, "smax": 50, "sizes": [10, 30, 49, 50, 20], "drop": 30, "wait_ms": 3000},
        {"seed": 5, "cmax": 65535, "smax": 1200, "sizes": [700] * 12, "drop": 25, "wait_ms": 5000, "gap_ms": 0},
        # a datagram below the peer's limit but larger than any packet of the path, then small ones (deviation D2)
        {"seed": 6, "cmax": 65535, "smax": 65535, "sizes": [1300, 10, 10], "drop": 0, "wait_ms": 3000},
    ]
    for i in range(7 if quick else 300):
        smax = rnd.choice([20, 100, 1000, 1200, 16390, 65535])
        n = rnd.randint(1, 12)
        # payloads that fit a packet and stay clear of the limit boundary (the boundary is the component level's job)
        top = min(smax - 10, 1000)
        sizes = [rnd.choice([0, 1, rnd.randint(0, top), top]) for _ in range(n)]
        if rnd.random() < 0.3:
            sizes.insert(rnd.randrange(len(sizes) + 1), smax + rnd.randint(0, 3))      # refused
        sc.append({"seed": 100 + i, "cmax": rnd.choice([0, 100, 65535]), "smax": smax, "sizes": sizes,
                   "drop": rnd.choice([0, 0, 10, 30, 50]), "wait_ms": 3000, "gap_ms": rnd.choice([0, 1, 5])})
    return sc


def _report(rep, part, trace, r):
    rep.add_traces(part, r["runs"], common.count_nontrivial(trace, hit), r["events"])
    with open(trace) as f:
        lines = [l for _, l in zip(range(9), f)]
    rep.sample({"part": part, "first_events": [json.loads(x) for x in lines]})
    for rej in r["rejected"]:
        s, what = common.signature(PID, COMP, rej)
        rep.violation(s, what, {"component": COMP, "part": part, "rejected_at": rej["at"], "reason": rej["reason"], "trace": rej["run"]})


def run(tier, rep):
    quick = tier == "quick"
    wd = vlib.workdir(PID)
    w = max(2, vlib.NCPU // 3)

    def do_mc(job):
        name, sub, cfg, consts = job
        return name, vlib.tlc_mc(sub, "MC_Datagram", cfg, consts, workers=w, need_actions=NEED)

    def do_gen(job):
        name, consts, sim = job
        beh = os.path.join(wd, "beh_%s.ndjson" % name)
        st = vlib.tlc_gen(PID + "/gen_" + name, "Gen_Datagram", common.GEN_CFG, consts, beh, workers=w, simulate=sim)
        return name, st, beh

    # TLC start-up dominates on a loaded machine: model checks and generators run side by side
    with ThreadPoolExecutor(max_workers=8) as ex:
        mcs = [ex.submit(do_mc, j) for j in mc_jobs(quick)]
        gens = [ex.submit(do_gen, j) for j in gen_jobs(quick)]
        mcs = [f.result() for f in mcs]
        gens = [f.result() for f in gens]
    for name, st in mcs:
        rep.add_mc(name, st)

    # (a) component level: replay on the real DatagramFlow, one trace file
    trace = os.path.join(wd, "trace_component.ndjson")
    with open(trace, "w") as out:
        for name, st, beh in gens:
            rep.add_mc("Gen_Datagram/" + name, st)
            t = os.path.join(wd, "trace_%s.ndjson" % name)
            vlib.vhx("vh-datagram", ["replay", beh, t])
            with open(t) as f:
                for line in f:
                    out.write(line)
            os.remove(t)
    # (b) connection level: the real client/server stack
    scs = os.path.join(wd, "scenarios.ndjson")
    with open(scs, "w") as f:
        for s in scenarios(quick):
            f.write(json.dumps(s) + "\n")
    ctrace = os.path.join(wd, "trace_connection.ndjson")
    vlib.vhx("vh-datagram", ["conn", scs, ctrace], timeout=1500)

    with ThreadPoolExecutor(max_workers=2) as ex:
        fa = ex.submit(vlib.validate_traces, PID + "/val_comp", "Trace_Datagram", TRACE_CFG, trace, TRACE_CONSTS)
        fb = ex.submit(vlib.validate_traces, PID + "/val_conn", "Trace_Datagram", TRACE_CFG, ctrace, TRACE_CONSTS, 2)
        ra, rb = fa.result(), fb.result()
    _report(rep, "component", trace, ra)
    _report(rep, "connection", ctrace, rb)
    aborted = sum(1 for l in open(ctrace) if '"ev":"abort"' in l)
    rep.cov["parts"]["connection"]["aborted_runs"] = aborted
    if aborted * 2 > rb["runs"]:
        raise vlib.ToolError("more than half of the connection runs did not reach an established connection (%d of %d)" % (aborted, rb["runs"]))

    rep.cov["rule"] = ("(a) call sequences on one real DatagramFlow (new_writer, new_reader, send/send_bytes of sizes 0, 1, limit-4..limit+1 and one beyond "
                       "every limit; try_load_data_into with remaining space size-1..size+varint+2 and a full packet; loss / in-order delivery of the "
                       "re-parsed frame into recv_frame; frames injected around the local limit in both forms; poll_recv; on_conn_error) enumerated by "
                       "TLC to the stated depth for peer/local limits {0 = disabled, 8, 66, 1200, 16390, 65535} plus random deep walks; every recorded "
                       "call validated exactly against Datagram.tla (result, frame form, padding, bytes used, id and size; payload bytes and the "
                       "FrameReader round trip compared by the harness). (b) real QuicClient + QuicListeners over an in-memory loss-only network under "
                       "virtual time: sends, DATAGRAM frames in the client's packet_sent qlog events, server reads, and the counts after a 3-5 s idle "
                       "wait. distinct_nontrivial = distinct runs in which a DATAGRAM frame was written / seen on the wire or a datagram reached the reader.")
    rep.cov["exhaustive"] = True
    rep.assumptions += ["payload bytes are determined by the datagram's number (first byte) so that identity survives the wire; empty payloads are matched by position",
                        "the network of the connection runs loses client->server UDP datagrams but never reorders or duplicates",
                        "a datagram 'fits a packet' when 1 + size <= 1100 (1200-byte MTU minus short header, tag and a small ACK frame)",
                        "connection runs whose handshake does not complete are reported (aborted_runs) and make no claim"]


def _ops(trace):
    ops = []
    r = trace[0]
    ops.append(["setup", r.get("pm", 0), r["lm"], r["mp"]])
    for e in trace[1:]:
        k = e["ev"]
        if k == "writer": ops.append(["writer", e["pm"]])
        elif k == "reader": ops.append(["reader"])
        elif k == "send": ops.append(["send", e["size"]])
        elif k == "pack": ops.append(["pack", e["space"]])
        elif k == "lose": ops.append(["lose", e["i"]])
        elif k == "deliver": ops.append(["deliver"])
        elif k == "inject": ops.append(["inject", e["size"], e["withlen"]])
        elif k == "read": ops.append(["read"])
        elif k == "connerr": ops.append(["connerr"])
        elif k == "panic": ops.append(e["op"])
    return ops


def replay(path):
    v = json.load(open(path))
    wd = vlib.workdir(PID)
    tr = v["payload"]["trace"]
    inp, trace = os.path.join(wd, "replay_in.ndjson"), os.path.join(wd, "replay_trace.ndjson")
    if tr[0].get("mode") == "conn":
        open(inp, "w").write(tr[0]["sc"] + "\n")
        vlib.vhx("vh-datagram", ["conn", inp, trace])
    else:
        open(inp, "w").write(json.dumps(_ops(tr)) + "\n")
        vlib.vhx("vh-datagram", ["replay", inp, trace])
    r = vlib.validate_traces(PID, "Trace_Datagram", TRACE_CFG, trace, constants=TRACE_CONSTS, nchunks=1)
    want = v.get("signature")
    for rej in r["rejected"]:
        s, what = common.signature(PID, COMP, rej)
        if want is None or s == want:
            print("  reproduced:", s, what)
            print("VIOLATION property=%s replay=%s" % (PID, path))
            return 1
    print("not reproduced on the current tree")
    return 0
