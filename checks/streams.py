"""Shared runner of the stream composition (C01 / C11 / C12): Stream.tla + MC_Stream / Gen_Stream / Trace_Stream,
harness `vh streams-*` (two real DataStreams endpoints + FlowController + Parameters over a frame-level network)."""
import json, os, re
import vlib
from checks import common

TRACE_CFG = "INIT TraceInit\nNEXT TraceNext\nINVARIANT ContractHolds\nINVARIANT SoftHolds\nPOSTCONDITION TraceAccepted\nCHECK_DEADLOCK FALSE\n"
MC_CFG = "SPECIFICATION MCSpec\nINVARIANT MCInv\nPROPERTY EverythingRead\nCHECK_DEADLOCK FALSE\n"
MC_SAFE_CFG = "INIT MCInit\nNEXT MCNext\nVIEW MCView\nINVARIANT MCInv\nCHECK_DEADLOCK FALSE\n"
INJ_CFG = "INIT InjInit\nNEXT InjNext\nINVARIANT EmitInj\nCHECK_DEADLOCK FALSE\n"
COVER_CFG = "INIT GenInit\nNEXT CoverNext\nVIEW CoverView\nINVARIANT EmitCover\nCHECK_DEADLOCK FALSE\n"
GEN_CFG = "INIT GenInit\nNEXT GenNext\nINVARIANT EmitGen\nCHECK_DEADLOCK FALSE\n"

_TAG = re.compile(r"\((C\d\d)(?:/(C\d\d))?\)\s*$")
SOFT_OWNER = {"StreamLimitOffByOne": "C12", "SendsBeyondRevisedStreamLimit": "C12", "StaleLossPanicsAfter0RttRejection": "C01"}


def classify(rej):
    """-> (owner property, signature tail, text)"""
    run, at = rej["run"], rej["at"]
    ev = run[at - 1] if 0 < at <= len(run) else {"ev": "eof"}
    reason = rej["reason"]
    name = reason.split()[0]
    if name in SOFT_OWNER:
        return SOFT_OWNER[name], "%s/%s" % (ev.get("ev"), name), "recorded deviation %s at event %d (%s)" % (name, at, json.dumps(ev)[:300])
    if ev.get("ev") == "panic":
        return "C01", "panic/%s" % (ev.get("class") or "other"), "panic in the stream machinery on %s: %s" % (json.dumps(ev.get("op")), ev.get("msg", "")[:240])
    why = reason.split(": ", 1)[1] if ": " in reason else reason
    m = _TAG.search(why)
    owners = [g for g in (m.groups() if m else ()) if g]
    owner = owners[0] if owners else "C01"
    slug = re.sub(r"[^A-Za-z0-9]+", "_", why)[:70].strip("_")
    return owner, "%s/%s" % (ev.get("ev"), slug), "event %d (%s) contradicts Stream.tla: %s" % (at, json.dumps(ev)[:300], why)


def hit_for(pid):
    if pid == "C01":
        return lambda line: '"ev":"read"' in line and '"res":"ok"' in line and '"n":0,' not in line
    if pid == "C11":
        return lambda line: '"t":"max_data"' in line or '"t":"max_stream_data"' in line or "FlowControl" in line
    return lambda line: ('"ev":"accept"' in line and '"res":"ok"' in line) or "StreamLimit" in line or "StreamState" in line or "FinalSize" in line


def validate(rep, pid, part, trace):
    r = vlib.validate_traces(pid, "Trace_Stream", TRACE_CFG, trace)
    rep.add_traces(part, r["runs"], common.count_nontrivial(trace, hit_for(pid)), r["events"])
    with open(trace) as f:
        lines = [l for _, l in zip(range(8), f)]
    rep.sample({"part": part, "first_events": [json.loads(x) for x in lines]})
    other = {}
    for rej in r["rejected"]:
        owner, tail, what = classify(rej)
        if owner == pid or (pid == "C01" and owner not in ("C11", "C12")):
            rep.violation("%s/Stream/%s" % (pid, tail), what,
                          {"component": "Stream", "rejected_at": rej["at"], "reason": rej["reason"], "trace": rej["run"]})
        else:
            other[owner] = other.get(owner, 0) + 1
    if other:
        rep.cov["parts"].setdefault(part, {})["violations_owned_by_other_properties"] = other
        vlib.log("%s: %s rejected run(s) belong to other properties' clauses %s (reported by their checks)" % (pid, sum(other.values()), other))
    return r


def run(pid, tier, rep):
    wd = vlib.workdir(pid)
    quick = tier == "quick"
    # 1. the design: an abstract pair of endpoints + lossy frame network generating every event the monitor judges
    # safety + liveness on 2 bytes (frame ids kept, no VIEW: liveness checking wants the real state graph) ...
    st = vlib.tlc_mc(pid, "MC_Stream", MC_CFG, {"MaxLen": 2, "MaxNet": 2, "S": '"cli"', "SID": 2, "Win": 4, "CWin": 4},
                     need_actions=["AWrite", "APack", "ADeliver", "ALose", "AAck", "ARead", "AShutdown", "ALateDeliver", "ALateAck"])
    if not quick:
        # ... and safety alone on 3 bytes under a VIEW that ignores the frame ids
        st3 = vlib.tlc_mc(pid, "MC_Stream", MC_SAFE_CFG, {"MaxLen": 3, "MaxNet": 2, "S": '"cli"', "SID": 2, "Win": 4, "CWin": 4}, timeout=3000)
        rep.add_mc("MC_Stream/3bytes-safety", st3)
    rep.add_mc("MC_Stream", st)
    # 2. spec -> impl: environment schedules enumerated by TLC, executed on the real DataStreams pair, traces validated
    flows = [("cli-uni", '"cli"', 2, 2, 3), ("srv-uni", '"srv"', 3, 100, 2), ("cli-bi", '"cli"', 0, 1, 100), ("srv-bi", '"srv"', 1, 100, 100)]
    for fi, (name, side, sid, win, cwin) in enumerate(flows):
        depth = 6 if quick else 7
        beh = os.path.join(wd, "beh_gen_%s.ndjson" % name)
        trace = os.path.join(wd, "trace_gen_%s.ndjson" % name)
        g = vlib.tlc_gen(pid, "Gen_Stream", GEN_CFG, {"MaxLen": 3, "MaxNet": 2, "S": side, "SID": sid, "Win": win, "CWin": cwin,
                                                       "Depth": depth}, beh)
        rep.add_mc("Gen_Stream/" + name, g)
        vlib.vh(["streams-replay", beh, trace])
        validate(rep, pid, "tlc-schedules/" + name, trace)
    # 2b. transition cover of the design model: one schedule per (design state, incoming step) pair, incl. late delivery /
    #     late acknowledgement of frames that were declared lost
    beh = os.path.join(wd, "beh_cover.ndjson")
    trace = os.path.join(wd, "trace_cover.ndjson")
    g = vlib.tlc_gen(pid, "Gen_StreamCover", COVER_CFG, {"MaxLen": 2, "MaxNet": 2, "S": '"cli"', "SID": 2, "Win": 100, "CWin": 100, "Depth": 0,
                                                          "CoverDepth": 11 if quick else 14}, beh, dfs=True)
    rep.add_mc("Gen_StreamCover", g)
    vlib.vh(["streams-replay", beh, trace])
    validate(rep, pid, "tlc-transition-cover", trace)
    # 2c. hostile frames after every short schedule that left something at the receiver
    beh = os.path.join(wd, "beh_inject.ndjson")
    trace = os.path.join(wd, "trace_inject.ndjson")
    g = vlib.tlc_gen(pid, "Gen_StreamInject", INJ_CFG, {"MaxLen": 2, "MaxNet": 2, "S": '"cli"', "SID": 2, "Win": 100, "CWin": 100, "Depth": 0,
                                                          "InjDepth": 6 if quick else 7}, beh, workers=min(vlib.NCPU, 8))
    rep.add_mc("Gen_StreamInject", g)
    vlib.vh(["streams-replay", beh, trace])
    validate(rep, pid, "tlc-hostile-injection", trace)
    # 3. seeded random long schedules (0-RTT, hostile injections, all parameter combinations)
    beh = os.path.join(wd, "beh_random.ndjson")
    trace = os.path.join(wd, "trace_random.ndjson")
    vlib.vh(["streams-random", vlib.seed(), 6000 if quick else 120000, 70, beh])
    vlib.vh(["streams-replay", beh, trace])
    validate(rep, pid, "random", trace)
    rep.cov["rule"] = ("environment schedules (application writes/reads/shutdown/reset/stop, packet capacities, which in-flight frame is delivered / "
                       "duplicated / lost / acknowledged next, handshake point, 0-RTT acceptance, hostile injected frames) enumerated by TLC to the stated "
                       "depth over all small parameter assignments plus seeded random long schedules; each executed on two real DataStreams endpoints "
                       "with real FlowController and Parameters; every recorded event (call results, frames emitted with offsets/lengths/FIN, control "
                       "frames, delivery results, connection credit) judged by TLC against Stream.tla; each run ends with a fair finish (no more loss) "
                       "after which everything written must have been read and flushed. distinct_nontrivial = distinct runs exercising this property's "
                       "clause (C01: a non-empty read; C11: a MAX_DATA/MAX_STREAM_DATA update or flow-control error; C12: an accepted peer stream or a stream error).")
    rep.assumptions += ["frames are delivered to the peer's recv_frame in the order the schedule says; packets are not modelled here (C02 covers the full stack)",
                        "control frames (MAX_*, RESET_STREAM, STOP_SENDING) are delivered at most once by the schedule; their retransmission is not under test"]


def ops_of(trace):
    """turn a recorded run back into the schedule that produced it (stored in the reset event)"""
    return trace[0].get("ops")


def replay(pid, path):
    v = json.load(open(path))
    wd = vlib.workdir(pid)
    run = v["payload"]["trace"]
    hdr = run[0]
    if "ops" not in hdr:
        print("replay file carries no schedule")
        return 2
    beh, trace = os.path.join(wd, "replay_beh.ndjson"), os.path.join(wd, "replay_trace.ndjson")
    open(beh, "w").write(json.dumps([hdr["cfg"]] + json.loads(hdr["ops"])) + "\n")
    vlib.vh(["streams-replay", beh, trace])
    r = vlib.validate_traces(pid, "Trace_Stream", TRACE_CFG, trace, nchunks=1)
    for rej in r["rejected"]:
        owner, tail, what = classify(rej)
        print("  reproduced: %s/Stream/%s — %s" % (owner, tail, what))
        print("VIOLATION property=%s replay=%s" % (pid, path))
        return 1
    print("not reproduced on the current tree")
    return 0
