"""C03 — decoding untrusted bytes never panics, hangs or mis-frames.
spec: Wire.tla / WireHdr.tla / WireParams.tla (reference decoders DecodePayload, DecodeDatagram, DecodeParams and the error class
the protocol prescribes); MC_Wire checks the reference decoder on itself (total, progress, within the buffer, re-encodable);
Gen_Wire enumerates the inputs: (i) every payload string head ++ s over the reduced alphabet, (ii) every truncation and single-byte
substitution of valid encodings (frames, datagrams incl. coalesced packets, transport parameters); (iii) seeded random inputs come
from vh-wire.  vh-wire feeds them to the real FrameReader (4 packet types), PacketReader (several local cid lengths) and
Parameters::<Role>::parse_from_bytes / try_from_remembered_bytes under catch_unwind and a watchdog; Trace_Wire (TLC) evaluates the
reference decoder on each recorded input and judges accept/reject, error class, decoded values, bytes consumed, progress."""
import hashlib, json, os
import vlib
from checks import wire_common as wc

BINS = wc.BINS


def hit(line):
    # non-trivial: at least one item was decoded successfully, or an error class was produced by a parser that got past the type
    return '"ok":true' in line


def run(tier, rep):
    wd = vlib.workdir("C03")
    quick = tier == "quick"
    seed = vlib.seed()
    L = 2 if quick else 3
    st = wc.mc("C03", "MC_Wire", {"Large": 1200, "Dense": "FALSE", "L": L, "Part": '"c03"'})
    rep.add_mc("MC_Wire/inputs", st)
    if st["depth"] != 2 or st["distinct"] < 15000:
        raise vlib.ToolError("vacuity: MC_Wire did not reach the inputs")
    # (i) + (ii): TLC-enumerated inputs
    allin = os.path.join(wd, "inputs_all.ndjson")
    g = vlib.tlc_gen("C03", "Gen_Wire", wc.gen_cfg("EmitC03"),
                     {"Large": 1200, "Dense": "FALSE", "L": L, "Quick": "TRUE" if quick else "FALSE"}, allin, workers=1, timeout=3000)
    rep.add_mc("Gen_Wire/inputs", g)
    inputs = os.path.join(wd, "inputs.ndjson")
    # the payload strings (i) are always replayed completely; the mutants (ii) are sampled in the quick tier (seeded)
    rates = {"in_frame": 8, "in_params": 10, "in_dgram": 3} if quick else {"in_frame": 2, "in_params": 2, "in_dgram": 1}
    kept = sample_keep_strings(allin, inputs, rates, seed, L)
    for k in ("in_frame", "in_dgram", "in_params"):
        if kept.get(k, 0) < 1000:
            raise vlib.ToolError("vacuity: only %d %s inputs" % (kept.get(k, 0), k))
    dls = "0,8,20" if quick else "0,1,4,8,16,20"
    trace = os.path.join(wd, "trace_enum.ndjson")
    wc.validate("C03", rep, "enumerated", "c03", inputs, trace, hit, extra=[dls])
    rep.cov["parts"]["enumerated"].update({"inputs": kept, "generated": g["behaviours"]})
    # (iii) seeded random inputs
    rnd = os.path.join(wd, "inputs_random.ndjson")
    vlib.vhx("vh-wire", ["random", seed, 4000 if quick else 60000, rnd])
    trace = os.path.join(wd, "trace_random.ndjson")
    wc.validate("C03", rep, "random", "c03", rnd, trace, hit, extra=[dls])
    rep.cov["rule"] = ("inputs: (i) every payload string <head> ++ s with head = each 1-byte frame type 0x00..0x1f,0x30..0x32, the alphabet bytes, the 8 "
                       "extension-type prefixes 0x803d7e90.. and non-minimally encoded types, s over {00,01,3f,40,7f,80,bf,c0,ff}, |s| <= L, replayed "
                       "completely in all 4 packet types; (ii) every truncation point and single-byte substitution (head and tail positions) of the valid "
                       "encodings of the C05 values with small byte fields and of API-constructible-but-invalid frames, of datagrams (every header "
                       "kind, Length, 0/19/20/21-byte payloads, coalesced pairs) and of transport-parameter blobs -- the quick tier replays a seeded "
                       "sample of (ii); (iii) seeded random / structured-random inputs up to 1500 bytes.  Each input is decoded by the real FrameReader, "
                       "PacketReader (local cid lengths %s) and parse_from_bytes (client, server, remembered); TLC evaluates the reference decoder on the "
                       "recorded input and compares accept/reject, error class, every decoded item and the bytes it consumed; a panic or a decoder "
                       "that does not return is a violation.  distinct_nontrivial = distinct inputs with at least one successfully decoded item." % dls)
    rep.cov["exhaustive"] = False
    rep.assumptions += ["'for any byte string' is sampled structurally (enumeration of short strings and of all single mutations of valid encodings + random), not proved",
                        "out-of-bounds reads can only surface as panics (safe Rust)",
                        "max_ack_delay >= 2^14 and initial_max_streams_* > 2^60 may be accepted or rejected (C18 decides that)",
                        "reason phrases are compared only when ASCII (from_utf8_lossy)"]


def sample_keep_strings(src, dst, rates, seed, L):
    """payload strings of (i) have at most L + 4 bytes: they are never sampled away"""
    n = {}
    with open(src) as f, open(dst, "w") as g:
        for line in f:
            v = json.loads(line)
            c = v["c"]
            r = rates.get(c, 1)
            if r > 1 and not (c == "in_frame" and len(v["b"]) <= L + 1):
                h = int.from_bytes(hashlib.blake2b((str(seed) + line).encode(), digest_size=4).digest(), "big")
                if h % r:
                    continue
            g.write(line)
            n[c] = n.get(c, 0) + 1
    return n


def replay(path):
    return wc.replay("C03", path)
