"""X1 — extension of the specification tree: the output scheduler of the stream layer (see checks/ext_sched.py,
design_parts/X1-StreamSched.md).  Thin wrapper so that `./check X1` and tools/mutant_run.sh work on the extension alone."""
from checks import ext_sched

BINS = ext_sched.BINS


def run(tier, rep):
    ext_sched.run_part("X1", tier, rep)


def replay(path):
    return ext_sched.replay("X1", path)
