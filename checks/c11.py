"""C11 — flow-control limits are never exceeded and violations are detected.
specs: Stream.tla (contract monitor), MC_Stream (design + liveness), Gen_Stream (environment schedules), Trace_Stream."""
from checks import streams


def run(tier, rep):
    streams.run("C11", tier, rep)


def replay(path):
    return streams.replay("C11", path)
