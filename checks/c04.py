"""C04 — hostile but well-formed frames cost bounded work and get the RFC's error.
spec: Hostile.tla; MC_Hostile (the outcome table is total and consistent, errors change nothing, intended work is bounded),
Gen_Hostile (every short legitimate history x every enabled hostile class), Trace_Hostile (impl -> spec: outcome, allocation
bound, no hang, no panic, no effect on error).  Harness: vh-hostile (real parser + real handlers in the dispatch order of
qconnection/src/space/*.rs, each hostile frame measured in a child process with a counting allocator under a watchdog)."""
import json, os, re
import vlib
from checks import common

BINS = ["vh-hostile"]
CONSTS = {"RcLimit": 2, "LcLimit": 3, "K": 4}
SENDK = "{1, 3, 7}"
SOFT = ("SoftNotTimedOut", "SoftAllocBounded", "SoftNoPanic", "SoftOutcomeAllowed", "SoftNoChangeOnError", "SoftEffect")
MC_CFG = "INIT MCInit\nNEXT MCNext\nINVARIANT Inv\nPROPERTY NoChangeOnError\nCHECK_DEADLOCK FALSE\n"
TRACE_CFG = common.trace_cfg(invs=("TraceInv",) + SOFT, props=("NoChangeOnError",))
TIMEOUT_MS = 2000
ALL3 = '{"initial", "handshake", "data"}'
ALLF = '{"ack", "pn", "crypto", "rcid", "lcid", "stream"}'
DEPTHS = {"quick": {"DAck": 2, "DAckLong": 1, "DPn": 2, "DCrypto": 2, "DCid": 3, "DStream": 2},
          "thorough": {"DAck": 3, "DAckLong": 3, "DPn": 3, "DCrypto": 3, "DCid": 4, "DStream": 4}}


def _slug(msg):
    return re.sub(r"[^a-z0-9]+", "_", msg.lower()).strip("_")[:48] or "none"


def signature(pid, comp, rej):
    run, at = rej["run"], rej["at"]
    ev = run[at - 1] if 0 < at <= len(run) else {"ev": "eof"}
    if ev.get("ev") != "hostile":
        return common.signature(pid, comp, rej)
    c = ev["cls"]
    cls = ".".join(c[k] for k in "abcd")
    reason = rej["reason"].split()[0]
    if reason.startswith("Soft"):
        reason = reason[4:]
    if reason == "no":
        reason = "NotABehaviour"
    sig = "C04/Hostile/%s/%s/%s/%s" % (ev["kind"], cls, ev["space"], reason)
    if reason == "NoPanic":
        sig += "/" + _slug(ev.get("msg", ""))
    if reason == "OutcomeAllowed":
        sig += "/" + ev.get("res", "?").replace("err:", "").replace(":", "_")
    what = ("%s space, hostile %s frame of class %s (values %s, %d bytes, after %s): observed res=%s alloc=%s timed_out=%s "
            "state_changed=%s %s — %s" % (ev["space"], ev["kind"], cls, json.dumps(ev.get("vals")), ev.get("bytes", 0),
                                          json.dumps([e for e in run[1:at - 1]])[:300], ev.get("res"), ev.get("alloc"),
                                          ev.get("timed_out"), ev.get("state_changed"), ev.get("msg", "")[:160], rej["reason"]))
    return sig, what


def hit(line):
    return '"ev":"hostile"' in line and '"res":"ok"' not in line


def _ops(trace):
    """recorded run -> the case (inputs) it came from"""
    r = trace[0]
    ops = [["init", r["focus"], r["space"]]]
    for e in trace[1:]:
        k = e["ev"]
        if k == "send": ops.append(["send", e["k"]])
        elif k in ("sendack", "rcv", "rcvskip", "crx", "retire"): ops.append([k])
        elif k == "peerack": ops.append([k, e["which"]])
        elif k == "newcid": ops.append([k, e["mode"]])
        elif k in ("open", "rx"): ops.append([k, e["dir"]])
        elif k == "hostile": ops.append(["hostile", e["kind"], e["cls"]])
    return ops


def _replay_cases(pid, beh, trace, quick=True):
    p = vlib.vhx("vh-hostile", ["run", beh, trace, min(vlib.NCPU, 8), TIMEOUT_MS], timeout=3000)
    st = json.loads(p.stdout.strip().splitlines()[-1])
    if st["class_disabled"]:
        raise vlib.ToolError("harness and specification disagree on which classes are enabled (%d cases dropped)" % st["class_disabled"])
    return st


def _validate(rep, trace, consts):
    """like common.validate, but every soft violation of every run is kept (a defect that fires on many classes must not hide
    a different one further down the file)"""
    r = vlib.validate_traces("C04", "Trace_Hostile", TRACE_CFG, trace, constants=consts, max_violations=40, max_soft=10 ** 7)
    rep.add_traces("hostile", r["runs"], common.count_nontrivial(trace, hit), r["events"])
    with open(trace) as f:
        lines = [l for _, l in zip(range(4), f)]
    rep.sample({"part": "hostile", "first_events": [json.loads(x) for x in lines]})
    seen = {}
    for rej in r["rejected"]:
        s, what = signature("C04", "Hostile", rej)
        seen[s] = seen.get(s, 0) + 1
        if seen[s] <= 3:      # a few witnesses per signature are enough
            rep.violation(s, what, {"component": "Hostile", "module": "Trace_Hostile", "rejected_at": rej["at"], "reason": rej["reason"],
                                    "trace": rej["run"]})
    rep.cov["parts"]["hostile"]["violation_signatures"] = len(seen)
    return r


def run(tier, rep):
    quick = tier == "quick"
    wd = vlib.workdir("C04")
    consts = dict(CONSTS)
    st = vlib.tlc_mc("C04", "MC_Hostile", MC_CFG, dict(consts, SendK=SENDK, MaxLegit=2 if quick else 4),
                     need_actions=["Send", "SendAck", "Rcv", "PeerAck", "Crx", "NewCid", "Retire", "Open", "Rx", "Hostile"])
    rep.add_mc("MC_Hostile", st)
    beh = os.path.join(wd, "beh.ndjson")
    trace = os.path.join(wd, "trace.ndjson")
    g = vlib.tlc_gen("C04", "Gen_Hostile", common.GEN_CFG,
                     dict(consts, SendK=SENDK, GenFocus=ALLF, GenSpaces=ALL3, **DEPTHS["quick" if quick else "thorough"]), beh)
    rep.add_mc("Gen_Hostile", g)
    hs = _replay_cases("C04", beh, trace, quick)
    vlib.log("vh-hostile: %s" % json.dumps(hs))
    rep.cov["parts"]["harness"] = hs
    _validate(rep, trace, consts)
    rep.cov["rule"] = ("for each of the three packet-number spaces (ACK, packet-number jumps, CRYPTO) and for the data space (NEW_CONNECTION_ID, "
                       "RETIRE_CONNECTION_ID, MAX_DATA, MAX_STREAMS, MAX_STREAM_DATA, STREAM, RESET_STREAM, STOP_SENDING): every legitimate history "
                       "to the stated depth enumerated by TLC x every enabled symbolic boundary class of the hostile frame; the harness instantiates "
                       "the class to concrete u64 values (incl. 2^31, 2^60+1, 2^62-1), encodes the frame, runs the real parser and the real handlers "
                       "in the dispatch order of qconnection/src/space/*.rs in a child process with a counting allocator under a %d ms watchdog "
                       "(timeouts re-confirmed in a fresh process with 2x the budget); TLC validates every recorded run against Hostile.tla: outcome in the allowed set, "
                       "allocation <= 4096*K*(bytes+held+1), no hang, no panic, no state change on error, exact effect of accepted ACK/MAX_DATA/"
                       "MAX_STREAMS. After the first blow-up of a (space, kind, class) the remaining histories of that class are skipped "
                       "(harness.skipped_after_blowup). distinct_nontrivial = distinct runs whose hostile frame was not plainly accepted." % TIMEOUT_MS)
    rep.cov["exhaustive"] = True
    rep.assumptions += ["cost is MEASURED (allocation counter, wall-clock watchdog) against a specification bound with a generous constant: "
                        "asymptotic blow-ups are detected, constant factors are not",
                        "the three lines of the dispatcher closure (cc.on_ack_rcvd, rcvd_journal.on_rcvd_ack, send to the piped receiver) are "
                        "replicated by the harness; the receivers themselves (Ack*Space::recv_frame) are the real ones (cfg hook)",
                        "cc-internal state is not compared for 'no state change on error' (no accessor); sent journal, received journal, cid "
                        "tables, emitted frames and stream/flow limits are"]


def replay(path):
    v = json.load(open(path))
    wd = vlib.workdir("C04")
    ops = _ops(v["payload"]["trace"])
    beh, trace = os.path.join(wd, "replay_beh.ndjson"), os.path.join(wd, "replay_trace.ndjson")
    open(beh, "w").write(json.dumps(ops) + "\n")
    vlib.vhx("vh-hostile", ["run", beh, trace, 1, TIMEOUT_MS])
    r = vlib.validate_traces("C04", "Trace_Hostile", TRACE_CFG, trace, constants=dict(CONSTS), nchunks=1)
    if r["rejected"]:
        for rej in r["rejected"]:
            print("  reproduced:", *signature("C04", "Hostile", rej))
        print("VIOLATION property=C04 replay=%s" % path)
        return 1
    print("not reproduced on the current tree")
    return 0
