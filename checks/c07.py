"""C07 — packet numbers are never reused and always decode to the number sent.
specs: SentJournal.tla (PnNeverReused), PnCodec.tla (RoundTrip)."""
import json, os
import vlib
from checks import common, sentj

PN_MC = "INIT Init\nNEXT Next\nINVARIANT AllRoundTrip\nCHECK_DEADLOCK FALSE\n"
PN_TR = "INIT TraceInit\nNEXT TraceNext\nPOSTCONDITION TraceAccepted\nCHECK_DEADLOCK FALSE\n"


def run(tier, rep):
    quick = tier == "quick"
    wd = vlib.workdir("C07")
    # the codec algorithm, exhaustively for two scaled width sets
    for i, (b, mr, mx) in enumerate([((2, 3, 4, 6), 7, 120 if quick else 400), ((1, 3, 5, 7), 7, 160 if quick else 600)]):
        st = vlib.tlc_mc("C07", "MC_PnCodec", PN_MC,
                         {"Bits": "<- MCBits", "B1": b[0], "B2": b[1], "B3": b[2], "B4": b[3], "MinRange": mr, "MaxPn": mx})
        rep.add_mc("MC_PnCodec/%d" % i, st)
    # the real codec: triples judged by TLC at the real widths + 62-bit bases
    trace = os.path.join(wd, "trace_pncodec.ndjson")
    vlib.vh(["pncodec", vlib.seed(), 20000 if quick else 300000, trace])
    common.validate(rep, "C07", "PnCodec", "Trace_PnCodec", PN_TR, trace, "pncodec", lambda l: True,
                    constants={"Bits": "<- RealBits", "MinRange": 65535})
    n = sum(1 for _ in open(trace)) - 1
    rep.cov["parts"]["pncodec"]["triples"] = n
    rep.cov["evaluations"] += n
    # packet-number allocation on the real sent journal
    sentj.run("C07", tier, rep)
    rep.cov["rule"] = ("(a) PnCodec.tla checked by TLC for every (pn, acked, expected) of two scaled width sets; (b) boundary and seeded random triples "
                       "through the real PacketNumber::encode/decode: values < 2^30 judged field by field by TLC at the real widths, bases up to 2^62 "
                       "and widths up to 32 bits judged by decoded = pn; (c) all call sequences on the real ArcSentJournal (complete / trivial / "
                       "abandoned assemblies interleaved with ack processing) validated by TLC incl. PnNeverReused. traces_validated counts (c) runs plus "
                       "one run for (b); evaluations adds the number of triples.")
    rep.assumptions += ["a receiver's next expected number lies in (largest_acked, pn] (or [0, pn] while nothing is acknowledged)",
                        "32-bit-wide truncation and numbers >= 2^31 are outside TLC's integers: judged by the round-trip identity only"]


def replay(path):
    v = json.load(open(path))
    if v["payload"].get("component") == "PnCodec":
        wd = vlib.workdir("C07")
        trace = os.path.join(wd, "trace_pncodec.ndjson")
        vlib.vh(["pncodec", vlib.seed(), 20000, trace])
        r = vlib.validate_traces("C07", "Trace_PnCodec", PN_TR, trace, constants={"Bits": "<- RealBits", "MinRange": 65535}, nchunks=1)
        if r["rejected"]:
            print("VIOLATION property=C07 replay=%s" % path)
            return 1
        print("not reproduced on the current tree")
        return 0
    return sentj.replay("C07", path)
