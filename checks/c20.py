"""C20 — event logging is well-formed and purely observational.
specs: Qlog.tla (the qlog stream as a trace language + the observational clause), MC_Qlog (a correct producer is accepted),
Gen_Qlog (exporter configurations x workloads x fault classes), Trace_Qlog.  Harness: vh-sim with a capturing exporter that
round-trips every event through JSON."""
import json, os
from concurrent.futures import ThreadPoolExecutor
import vlib
from checks import sim, common

BINS = ["vh-sim"]
MC_CFG = "INIT MCInit\nNEXT MCNext\nVIEW View\nINVARIANT MonitorAccepts\nCHECK_DEADLOCK FALSE\n"
TRACE_CFG = "INIT TraceInit\nNEXT TraceNext\nINVARIANT SoftContract\nPOSTCONDITION TraceAccepted\nCHECK_DEADLOCK FALSE\n"
FAULTS = {"none": {}, "loss": {"drop": 12, "until_ms": 2000}, "dupflip": {"dup": 10, "flip": 6, "until_ms": 2000},
          "reorder": {"delay": 25, "until_ms": 2000}}


def is_hit(line):
    return '"ev":"q"' in line


def scenario(seed, c, gid):
    sc = {"seed": seed, "bounded": True, "bi": c["bi"], "uni": c["uni"], "size": c["size"], "chunk": 4096, "faults": dict(FAULTS[c["faults"]]),
          "qlog": c["mode"], "lat_ms": 5, "max_segments": 4, "deadline_ms": 120000, "group": gid, "close": {}}
    if c["close"] == "srv_mid":
        sc["close"] = {"srv": 60}
    return sc


def run(tier, rep):
    wd = vlib.workdir("C20")
    quick = tier == "quick"
    st = vlib.tlc_mc("C20", "MC_Qlog", MC_CFG, {"MaxPn": 3 if quick else 4},
                     need_actions=["ConnStep", "Send", "Acked", "Lost", "SendSide", "RecvSide"], workers=min(vlib.NCPU, 8))
    rep.add_mc("MC_Qlog", st)
    beh = os.path.join(wd, "cases.ndjson")
    g = vlib.tlc_gen("C20", "Gen_Qlog", sim.GEN_CFG, {}, beh, workers=1)
    rep.add_mc("Gen_Qlog", g)
    cases = [json.loads(l) for l in open(beh)]
    groups = {}
    for c in cases:
        gid = "%d-%d-%d-%s-%s" % (c["bi"], c["uni"], c["size"], c["faults"], c["close"])
        groups.setdefault(gid, []).append(c)
    gids = sorted(groups)
    reps = 1 if quick else 6
    # one trace file per batch of whole groups, so that the runs of a group are judged together
    nb = 8
    batches = [[] for _ in range(nb)]
    for r in range(reps):
        for i, gid in enumerate(gids):
            seed = vlib.seed() * 1000 + r * 100 + i
            g2 = "%s#%d" % (gid, r)
            order = ["capture", "none", "noop", "filtered", "raw"]
            for c in sorted(groups[gid], key=lambda c: order.index(c["mode"])):
                batches[(i + r) % nb].append(scenario(seed, c, g2))

    def work(ib):
        i, b = ib
        trace, _ = sim.run_sim("C20", "b%02d" % i, b, nproc=1)
        return vlib.validate_traces("C20", "Trace_Qlog", TRACE_CFG, trace, nchunks=1, max_violations=40, tag="_b%02d" % i), trace

    with ThreadPoolExecutor(max_workers=min(nb, vlib.NCPU)) as ex:
        results = list(ex.map(work, enumerate(batches)))
    runs = events = nontriv = 0
    for r, trace in results:
        runs += r["runs"]; events += r["events"]
        nontriv += common.count_nontrivial(trace, is_hit)
        for rej in r["rejected"]:
            sig, what = sim.classify("C20", "Qlog", rej)
            rep.violation(sig, what, {"component": "Qlog", "rejected_at": rej["at"], "reason": rej["reason"],
                                      "scenario": rej["run"][0].get("sc"), "trace_excerpt": sim.slim_run(rej["run"], rej["at"], keep=40)})
    rep.add_traces("exporter-matrix", runs, nontriv, events)
    # builder-level enumeration: events built through the real conversions from qbase types for boundary field values
    # (connection ids of every length 0..20, preferred_address present / absent, both owners)
    evt = os.path.join(wd, "events_trace.ndjson")
    vlib.vhx("vh-sim", ["events", evt])
    r = vlib.validate_traces("C20", "Trace_Qlog", TRACE_CFG, evt, nchunks=1, max_violations=40, tag="_events")
    rep.add_traces("event-builders", r["runs"], common.count_nontrivial(evt, is_hit), r["events"])
    for rej in r["rejected"]:
        sig, what = sim.classify("C20", "Qlog", rej)
        rep.violation(sig, what, {"component": "QlogBuilders", "rejected_at": rej["at"], "reason": rej["reason"], "trace": rej["run"][:40]})
    with open(results[0][1]) as f:
        lines = [l for _, l in zip(range(5), f)]
    rep.sample({"part": "exporter-matrix", "first_events": [json.loads(x) for x in lines]})
    rep.cov["rule"] = ("scenario groups enumerated by TLC (Gen_Qlog): 4 workloads x 4 fault classes x 2 close styles, each run under the five exporter "
                       "configurations (none, no-op, capturing, filtered, raw data) with the same seed; every event the capturing exporter receives is "
                       "serialised, parsed back and re-serialised by the harness and then judged by TLC against Qlog.tla (mandatory fields, vocabulary, "
                       "round trip, state / packet-number / ack / loss / stream-state ordering); the application-visible summary (per stream: size, "
                       "outcome, bytes echoed; overall outcome) must be identical within a group. distinct_nontrivial = distinct runs that produced events.")
    rep.assumptions += ["'parses back to an equal event' is judged on the JSON value (re-serialisation of the parsed event equals the original document)",
                        "timing is not part of the application-visible behaviour; connection ids / TLS randomness differ between runs"]


def replay(path):
    v = json.load(open(path))
    sc = v["payload"]["scenario"]
    trace, _ = sim.run_sim("C20", "replay", [sc], nproc=1)
    r = vlib.validate_traces("C20", "Trace_Qlog", TRACE_CFG, trace, nchunks=1)
    if r["rejected"]:
        print("  reproduced:", *sim.classify("C20", "Qlog", r["rejected"][0]))
        print("VIOLATION property=C20 replay=%s" % path)
        return 1
    print("not reproduced on the current tree")
    return 0
