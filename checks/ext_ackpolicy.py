"""X2 (extension) -- the acknowledgement POLICY: when must an ACK frame be sent, and for which largest number.
C10 (a generated ACK frame is truthful) and C13 (every ack-eliciting packet in flight is eventually acknowledged, lost or probed)
presuppose it.  spec: AckPolicy.tla (ground truth monitor + the code's policy as design D_*), MC_AckPolicy (design, exhaustive for
small constants, liveness under fair polling), Gen_AckPolicy (environment schedules), Trace_AckPolicy (real ArcCC + ArcRcvdJournal).

run_part(pid, tier, rep) adds parts `ackpolicy/...` to the Report of property `pid`; signatures are
"<pid>/AckPolicy/<event>/<Invariant>" (+ "@interleaved" when an arrival fell between ack_package and commit in that run)."""
import json, os
import vlib
from checks import common

BINS = ["vh-ackpolicy"]
COMP = "AckPolicy"
HARD = ["EveryElicitingAcked", "OverdueWakes", "NoAckOfAckOnly", "AckSentSettles", "LargestReported", "CoverComplete"]
REAL = {"MaxAckDelay": 25, "Fixed": "FALSE"}
GEN_CFG = "INIT GenInit\nNEXT GenNext\nINVARIANT Emit\nCHECK_DEADLOCK FALSE\n"
TRACE_CFG = common.trace_cfg(invs=("SoftInv",))
DIAG_CFG = common.trace_cfg(invs=("DiagInv",))


def mc_cfg(inv, live):
    return "SPECIFICATION MCSpec\nINVARIANT %s\n%sCHECK_DEADLOCK FALSE\n" % (inv, "PROPERTY EventuallyAcked\n" if live else "")


def mc_parts(quick):
    base = {"MaxAckDelay": 2, "Dts": "{1, 3}"}
    # seq: the sequential path of the policy as the code has it -- every property incl. the wake-up clause, application space,
    # and liveness under fair polling and a progressing clock
    seq = dict(base, Fixed="FALSE", Race="FALSE", MCSpaces="{3}", Pns="{0, 1, 2}", Horizon=4 if quick else 6)
    # hs: a handshake space next to the application space (immediate acknowledgement, discard)
    hs = dict(base, Fixed="FALSE", Race="FALSE", MCSpaces="{2, 3}", Pns="{0, 1}", **({"MaxAckDelay": 1, "Dts": "{1, 2}", "Horizon": 2} if quick else {"Horizon": 4}))
    # race-repaired: arrivals interleaved with the three steps of sending an ACK, on the design WITH the proposed repairs
    racefix = dict(base, Fixed="TRUE", Race="TRUE", MCSpaces="{3}", Pns="{0, 1, 2}", Horizon=3 if quick else 5)
    return [("seq", seq, mc_cfg("Inv", True)), ("hs", hs, mc_cfg("Inv", False)),
            ("race-repaired", racefix, mc_cfg("InvNoWake", not quick))]


def gen_parts(quick):
    base = dict(REAL, Script="<- ScriptNone", GDts="{1}", MaxPn=6, Els="{TRUE, FALSE}")
    seq = dict(base, Atomic="TRUE", GSpaces="{3}", Depth=6 if quick else 7, MaxRcvd=3, Ops='{"r", "a", "p", "g", "s"}',
               Script="<- ScriptSeq", GDts="{1}" if quick else "{1, 24}")
    spaces = dict(base, Atomic="TRUE", GSpaces="{1, 2, 3}", Depth=5 if quick else 7, MaxRcvd=2 if quick else 3,
                  Ops='{"r", "a", "p", "g", "s", "t", "d"}', Script="<- ScriptSpaces")
    race = dict(base, Atomic="FALSE", GSpaces="{3}", Depth=7 if quick else 8, MaxRcvd=3 if quick else 4, Ops='{"r", "a", "p", "g", "s"}',
                Script="<- ScriptRace")
    return [("allpaths/seq", seq, None), ("allpaths/spaces", spaces, None), ("allpaths/race", race, None)]


def sim_parts(quick):
    allops = '{"r", "a", "p", "g", "s", "n", "t", "d"}'
    base = dict(REAL, Script="<- ScriptNone", GDts="{1, 7, 24, 26, 60}", MaxPn=60, MaxRcvd=40, GSpaces="{1, 2, 3}", Ops=allops, Els="{TRUE, FALSE}")
    n = 100 if quick else 4000
    return [("walks/seq", dict(base, Atomic="TRUE", Depth=30), {"num": n, "depth": 35}),
            ("walks/race", dict(base, Atomic="FALSE", Depth=30), {"num": n, "depth": 35})]


def thin(path, keep):
    """TLC's simulator evaluates the Emit invariant on every candidate successor of a walk's last step; keep a few per walk."""
    seen, out = {}, []
    with open(path) as f:
        for line in f:
            ops = json.loads(line)
            k = json.dumps(ops[:10])
            seen[k] = seen.get(k, 0) + 1
            if seen[k] <= keep:
                out.append(line)
    with open(path, "w") as f:
        f.writelines(out)
    return len(out)


def is_hit(line):
    return '"ev":"gen"' in line and '"ok":true' in line


def signature(pid, comp, rej):
    run, at = rej["run"], rej["at"]
    ev = run[at - 1] if 0 < at <= len(run) else {"ev": "eof"}
    if ev.get("ev") == "panic":
        return common.signature(pid, comp, rej)
    name = rej["reason"].split()[0]
    sig = "%s/%s/%s/%s" % (pid, comp, ev.get("ev"), name)
    if rej["reason"].rstrip().endswith(": interleaved"):
        sig += "@interleaved"
    o = ev.get("o", {})
    return sig, ("after event %d (%s) of the recorded run the policy's answers (cc.need_ack %s, journal.need_ack %s, do_tick woke the sender: %s) "
                 "break %s of AckPolicy.tla" % (at, json.dumps({k: v for k, v in ev.items() if k != "o"}), o.get("c"), o.get("j"), o.get("w"), name)
                 if name in HARD else "event %d (%s) of the recorded run is not a behaviour of the specification: %s" % (at, json.dumps(ev)[:400], rej["reason"]))


def to_ops(trace):
    ops = []
    for e in trace:
        k = e["ev"]
        if k == "reset": ops.append(["cfg", 1 if e.get("server") else 0])
        elif k == "rcvd": ops.append(["r", e["sp"], e["pn"], int(e["el"])])
        elif k == "adv": ops.append(["a", e["dt"]])
        elif k == "poll": ops.append(["p", e["sp"]])
        elif k == "gen": ops.append(["g", e["sp"]])
        elif k == "sent": ops.append(["s", e["sp"]])
        elif k == "send": ops.append(["n", e["sp"], int(e["ae"])])
        elif k == "tick": ops.append(["t"])
        elif k == "discard": ops.append(["d", e["sp"]])
        elif k == "panic": ops.append(e["op"])
    return ops


def _adopt_known(rep):
    """findings of this component are filed under the listed property whose clause they break (C10 / C13); they apply
    whatever property's report the part is added to."""
    for k in vlib.load_known():
        if k.get("status") == "finding" and k.get("component") == COMP and k not in rep.known:
            rep.known.append(k)


def _par(jobs, n):
    """run thunks concurrently (each TLC start costs tens of seconds on a loaded machine); results in order, first error re-raised"""
    from concurrent.futures import ThreadPoolExecutor
    with ThreadPoolExecutor(max_workers=max(1, n)) as ex:
        futs = [ex.submit(j) for j in jobs]
        return [f.result() for f in futs]


def run_part(pid, tier, rep):
    quick = tier == "quick"
    wd = vlib.workdir(pid)
    _adopt_known(rep)
    ncpu = vlib.NCPU
    # --- the design, model checked (parts run side by side, each in its own work directory)
    mcs = [] if os.environ.get("X2_SKIP_MC") else mc_parts(quick)

    def mc_job(name, consts, cfg):
        need = ["Rcvd", "Advance", "Poll", "Gen", "Sent"] + (["Discard"] if name == "hs" else [])
        return lambda: vlib.tlc_mc("%s/mc_%s" % (pid, name), "MC_AckPolicy", cfg, consts, need_actions=need,
                                   workers=max(1, ncpu // max(1, len(mcs))))
    for (name, _, _), st in zip(mcs, _par([mc_job(*m) for m in mcs], len(mcs))):
        rep.add_mc("ackpolicy/MC_AckPolicy/" + name, st)
    # --- environment schedules, generated side by side
    parts = gen_parts(quick) + sim_parts(quick)

    def gen_job(part, consts, sim):
        tag = part.replace("/", "_")
        beh = os.path.join(wd, "beh_ackpolicy_%s.ndjson" % tag)
        return lambda: (vlib.tlc_gen("%s/gen_%s" % (pid, tag), "Gen_AckPolicy", GEN_CFG, consts, beh, simulate=sim,
                                     workers=max(1, ncpu // len(parts))), beh)
    gens = _par([gen_job(*p) for p in parts], min(ncpu, len(parts)))
    # --- executed on the real objects; one validation pass over the recorded runs of all parts
    alltrace = os.path.join(wd, "trace_ackpolicy_all.ndjson")
    sample = os.path.join(wd, "trace_ackpolicy_diag.ndjson")
    with open(alltrace, "w") as allf, open(sample, "w") as sf:
        for (part, consts, sim), (g, beh) in zip(parts, gens):
            if sim:
                g["behaviours"] = thin(beh, 2)
            rep.add_mc("ackpolicy/Gen_AckPolicy/" + part, g)
            trace = os.path.join(wd, "trace_ackpolicy_%s.ndjson" % part.replace("/", "_"))
            vlib.vhx("vh-ackpolicy", ["replay", beh, trace])
            nruns = 0
            with open(trace) as f:
                for line in f:
                    allf.write(line)
                    nruns += '"ev":"reset"' in line
                    if nruns <= (400 if quick else 4000):
                        sf.write(line)
            os.remove(trace)

    def main_job():
        return vlib.validate_traces(pid, "Trace_AckPolicy", TRACE_CFG, alltrace, constants=REAL, max_soft=1000000)

    def diag_job():
        # diagnostics (never a violation): SHOULDs of RFC 9000 13.2 and agreement of the implementation with the design, on a sample
        return vlib.validate_traces(pid + "/diag", "Trace_AckPolicy", DIAG_CFG, sample, constants=REAL, nchunks=1, max_soft=1000000)
    r, rd = _par([main_job, diag_job], 2)
    part = "ackpolicy/traces"
    rep.add_traces(part, r["runs"], common.count_nontrivial(alltrace, is_hit), r["events"])
    with open(alltrace) as f:
        lines = [l for _, l in zip(range(7), f)]
    rep.sample({"part": part, "first_events": [json.loads(x) for x in lines]})
    for rej in r["rejected"]:
        sg, what = signature(pid, COMP, rej)
        rep.violation(sg, what, {"component": COMP, "module": "Trace_AckPolicy", "rejected_at": rej["at"], "reason": rej["reason"], "trace": rej["run"]})
    diag = {}
    for rej in rd["rejected"]:
        n = rej["reason"].split()[0]
        diag[n] = diag.get(n, 0) + 1
    rep.cov["ackpolicy_diagnostics"] = {"runs": rd["runs"], "runs_in_which_the_clause_does_not_hold": diag}
    vlib.log("  AckPolicy diagnostics over %d runs (runs in which the clause does not hold): %s" % (rd["runs"], diag))
    sigs = {}
    for sig, _, _ in rep.violations:
        if "/%s/" % COMP in sig:
            sigs[sig] = sigs.get(sig, 0) + 1
    rep.cov["ackpolicy_signatures"] = sigs
    for k in sorted(sigs):
        vlib.log("  %6d x %s" % (sigs[k], k))
    rule = ("[AckPolicy] environment schedules for one path -- packet arrivals in the three spaces (in order, after a gap, filling a hole; "
            "ack-eliciting or not), clock advances (fixed steps, exactly to and just past the earliest max_ack_delay deadline), the three steps of "
            "sending a packet with an ACK frame (ack_package samples cc.need_ack; AckPackege::dump falls back to journal.need_ack and generates; "
            "commit -> cc.on_pkt_sent(.., largest)), packets without ACK, discards -- with and without arrivals interleaved between those steps, "
            "enumerated by TLC to the stated depth plus seeded deep random walks of the design, each followed by the same draining epilogue; executed on "
            "the real ArcCC + ArcRcvdJournal under tokio's paused clock; after every call do_tick's wake-up and cc.need_ack / journal.need_ack of all "
            "spaces are recorded and judged by TLC against AckPolicy.tla. distinct_nontrivial = distinct runs in which an ACK frame was generated.")
    rep.cov["rule"] = (rep.cov.get("rule", "") + " " + rule).strip()
    rep.cov["exhaustive"] = True
    rep.assumptions += ["[AckPolicy] one path; both policy objects use the same max_ack_delay (25 ms); ACK capacity ample (1200 bytes), so a generated "
                        "frame covers every received number up to its largest (checked: CoverComplete)",
                        "[AckPolicy] a packet number is registered at most once (RcvdJournal::decode_pn, C10); no peer ACK of our ACK-carrying packets "
                        "(record rotation) during a run",
                        "[AckPolicy] at the deadline itself (now = arrival + max_ack_delay) either answer is accepted; SHOULD-level rules "
                        "(every second packet, immediate on reordering / gap) are diagnostics"]


def replay(pid, path):
    v = json.load(open(path))
    wd = vlib.workdir(pid)
    beh, trace = os.path.join(wd, "replay_beh.ndjson"), os.path.join(wd, "replay_trace.ndjson")
    open(beh, "w").write(json.dumps(to_ops(v["payload"]["trace"])) + "\n")
    vlib.vhx("vh-ackpolicy", ["replay", beh, trace])
    r = vlib.validate_traces(pid, "Trace_AckPolicy", TRACE_CFG, trace, nchunks=1, constants=REAL)
    want = v.get("signature")
    sigs = [signature(pid, COMP, rej) for rej in r["rejected"]]
    hit = [s for s in sigs if s[0] == want] or sigs
    if hit:
        print("  reproduced:", *hit[0])
        print("VIOLATION property=%s replay=%s" % (pid, path))
        return 1
    print("not reproduced on the current tree")
    return 0
