"""C15 — an unvalidated address never receives more than 3x what it sent.
spec: AntiAmp.tla; MC_AntiAmp (atomic-operation interleavings of receive path x validation path x burst task),
Gen_AntiAmp (all public call sequences), Trace_AntiAmp (TraceNext: calls on the real AntiAmplifier/ArcSendWaker/Constraints;
PathTraceNext: per-path byte events of a full-stack run)."""
import json, os, re, time
import vlib
from checks import common

BINS = ["vh-antiamp"]
PID, COMP = "C15", "AntiAmp"

# the budget discipline the property asks for / the three named deviations of the code
DISCIPLINE = {"RereadPerSegment": "FALSE", "PadBeyondCredit": "FALSE", "WrapOnOverdraft": "FALSE"}
AS_CODED = {"RereadPerSegment": "TRUE", "PadBeyondCredit": "TRUE", "WrapOnOverdraft": "TRUE"}
BASE = {"N": 3}
MC_INVS = ("TypeOK", "Amp3x", "CreditNeverWraps", "ResumeOnRcvdOrGrant")
MC_CFG = common.mc_cfg(invs=MC_INVS, props=("DeadIsFinal",))
MC_LIVE_CFG = "SPECIFICATION MCSpec\nVIEW View\nPROPERTY Resumes\nCHECK_DEADLOCK FALSE\n"
# call-granularity traces: exact replay + the property invariants; the wrap is reported softly (the model follows the code)
TR_CFG = common.trace_cfg(invs=("TypeOK", "Amp3xDisciplined", "ResumeOnRcvdOrGrantCall", "AbortedNoBalance", "SoftCreditNeverWraps"))
# per-path byte streams of a full-stack run: property invariant only
PATH_CFG = ("INIT TraceInit\nNEXT PathTraceNext\nINVARIANT SoftAmp3x\nPOSTCONDITION TraceAccepted\nCHECK_DEADLOCK FALSE\n")
TRACE_CONSTS = dict(BASE, MTU=1200, MaxSeg=1, **AS_CODED)
MC_ACTIONS = ["RxRcvd", "R_Load", "R_Add", "R_Wake", "CtlGrant", "CtlAbort", "G_Cas", "A_Cas", "G_Wake",
              "BurstBegin", "B_Load", "B_Credit", "B_Reload", "B_Wake", "BalanceDone", "BurstSegment", "PadInitial",
              "DebitBegin", "S_Load", "S_Sub", "DebitDone", "SendPackets", "W_Poll", "WaitDone", "Woken"]


def mc_consts(flags, **over):
    c = dict(BASE, MTU=4, MaxSeg=2, RcvSizes="{1, 2}", MaxRcvdBytes=2, Quotas="{2, 1073741824}", PktSeqs="<- MCPkts", MaxBursts=2)
    c.update(flags)
    c.update(over)
    return c


def is_hit(line):
    """non-trivial run: bytes were debited from a positive budget, or a parked sender was woken."""
    return '"ev":"sent"' in line or ('"wakes":0' not in line and '"ev":"reset"' not in line)


def expect_counterexample(rep, name, consts, invariant):
    """Diagnostic: TLC on the model *as coded* must exhibit the named deviation (the spec does not silently share it).
    Not a verdict about the implementation; recorded in the evidence only."""
    wd = vlib.workdir(PID)
    cfg = os.path.join(wd, "MC_AntiAmp_%s.cfg" % name)
    vlib.write_cfg(cfg, MC_CFG, consts)
    rc, out, wall = vlib._java("MC_AntiAmp.tla", cfg, os.path.join(wd, "meta_mc_" + name), vlib.NCPU, timeout=900, xmx=vlib.XMX)
    with open(os.path.join(wd, "MC_AntiAmp_%s.log" % name), "w") as f:
        f.write(out)
    m = vlib._INVV.search(out)
    st = vlib.parse_stats(out)
    st["wall_s"] = round(wall, 1)
    steps = len(re.findall(r"^State \d+:", out, re.M))
    if not m:
        raise vlib.ToolError("the model of the code as written (%s) no longer exhibits a deviation: the spec lost its binding to burst.rs/aa.rs" % name)
    rep.cov["parts"]["MC_AntiAmp/as-coded/" + name] = {"distinct": st["distinct"], "generated": st["generated"], "wall_s": st["wall_s"],
                                                        "model_counterexample": m.group(1), "length": steps}
    vlib.log("TLC MC_AntiAmp as coded (%s): %s violated by a %d-step model behaviour (diagnostic), %.1fs" % (name, m.group(1), steps, wall))


def sig(pid, comp, rej):
    s, what = common.signature(pid, comp, rej)
    return s, what


def validate_path_trace(rep, tracefile, part="sim/paths"):
    """Entry point for the full-stack simulation (binding (b)): tracefile holds, per path and run, a `reset` event followed by
    {"ev":"rcvd","n":..} / {"ev":"sent","n":..} / {"ev":"grant"} / {"ev":"abort"} in the order the network saw them."""
    return common.validate(rep, PID, "Path", "Trace_AntiAmp", PATH_CFG, tracefile, part,
                           lambda line: '"ev":"sent"' in line, constants=TRACE_CONSTS)


def run(tier, rep):
    quick = tier == "quick"
    # 1. the design: every interleaving of the atomic operations; the discipline satisfies the property
    if quick:
        models = [("discipline", {}), ("discipline/zero-size", {"RcvSizes": "{0, 1}", "MaxRcvdBytes": 1, "MaxBursts": 1})]
    else:
        models = [("discipline", {"RcvSizes": "{0, 1, 2}", "MaxRcvdBytes": 3})]
    for name, over in models:
        st = vlib.tlc_mc(PID, "MC_AntiAmp", MC_CFG, mc_consts(DISCIPLINE, **over), need_actions=MC_ACTIONS if name == "discipline" else None)
        rep.add_mc("MC_AntiAmp/" + name, st)
    if not quick:
        st = vlib.tlc_mc(PID, "MC_AntiAmp", MC_LIVE_CFG, mc_consts(DISCIPLINE, MaxBursts=1), need_actions=["W_Poll", "Woken"])
        rep.add_mc("MC_AntiAmp/liveness", st)
    # 1b. diagnostics: each named deviation of the burst loop, alone, breaks the property in the model
    for name in ("RereadPerSegment", "PadBeyondCredit"):
        flags = dict(DISCIPLINE)
        flags[name] = "TRUE"
        flags["WrapOnOverdraft"] = "TRUE"
        expect_counterexample(rep, name, mc_consts(flags, MaxBursts=1), "Amp3x")
    # 2. + 3. spec -> real AntiAmplifier -> spec
    parts = [("d5", {"RcvSizes": "{0, 1, 400, 1200}", "Depth": 5, "After": 2})]
    if quick:
        parts.append(("d6", {"RcvSizes": "{1, 1200}", "Depth": 6, "After": 1}))
    else:
        parts.append(("d6", {"RcvSizes": "{0, 1, 400, 1200}", "Depth": 6, "After": 2}))
        parts.append(("d7", {"RcvSizes": "{1, 1200}", "Depth": 7, "After": 1}))
    wd = vlib.workdir(PID)
    for part, c in parts:
        consts = dict(TRACE_CONSTS, SegCases="<- GenSegCases", **c)
        beh = os.path.join(wd, "beh_%s.ndjson" % part)
        trace = os.path.join(wd, "trace_%s.ndjson" % part)
        g = vlib.tlc_gen(PID, "Gen_AntiAmp", common.GEN_CFG, consts, beh)
        rep.add_mc("Gen_AntiAmp/" + part, g)
        vlib.vhx("vh-antiamp", ["replay", beh, trace])
        common.validate(rep, PID, COMP, "Trace_AntiAmp", TR_CFG, trace, "calls/" + part, is_hit, sig, constants=TRACE_CONSTS)
    # optional: per-path byte streams recorded by the full-stack simulation, if it left any for us
    ptrace = os.path.join(vlib.WORK, "sim", "c15_paths.ndjson")
    if os.path.exists(ptrace) and os.path.getsize(ptrace) > 0:
        validate_path_trace(rep, ptrace)
    rep.cov["rule"] = ("(1) TLC explores every interleaving of the individual atomic operations of on_rcvd / balance / on_sent / grant / abort / "
                       "SendWaker critical sections for one receive task, one validation task and the burst task (multi-segment bursts under "
                       "Constraints, Initial padding, debit after the burst) and checks sent <= 3*rcvd while NORMAL, no wrap, no lost resume, dead is final; "
                       "(2) every sequence of public calls to the stated depth (on_rcvd 0/1/400/1200, balance, on_sent below/at/above the balance read, "
                       "grant, abort, wait_for(CREDIT) polls with a counting waker, datagram assemblies under the real Constraints) is executed on the real "
                       "AntiAmplifier and every step validated by TLC (result, counter, state, required wake-ups). "
                       "distinct_nontrivial = distinct runs with at least one on_sent or one wake-up of a parked sender.")
    rep.cov["exhaustive"] = True
    rep.assumptions += ["one burst task per path (balance/on_sent are called by one task at a time, as aa.rs requires)",
                        "packet sizes and counts stay below 2^31 (TLC integers); the counter is observed as a signed 64-bit value",
                        "the real Burst::load_spaces / Path::send_packets loop is bound only through the full-stack simulation's per-path byte "
                        "streams (PathTraceNext); at component level the burst loop exists in the model only"]


def to_ops(trace):
    ops = []
    for e in trace[1:]:
        k = e["ev"]
        if k in ("rcvd", "sent"): ops.append([k, e["n"]])
        elif k in ("balance", "grant", "abort", "wait"): ops.append([k])
        elif k == "seg": ops.append([k, e["case"]])
        elif k == "panic": ops.append(e["op"])
    return ops


def replay(path):
    v = json.load(open(path))
    if v["payload"].get("component") == "Path":
        wd = vlib.workdir(PID)
        trace = os.path.join(wd, "replay_path.ndjson")
        with open(trace, "w") as f:
            for e in v["payload"]["trace"]:
                f.write(json.dumps(e) + "\n")
        r = vlib.validate_traces(PID, "Trace_AntiAmp", PATH_CFG, trace, nchunks=1, constants=TRACE_CONSTS)
        if r["rejected"]:
            print("  recorded path byte stream still violates:", *common.signature(PID, "Path", r["rejected"][0]))
            print("VIOLATION property=%s replay=%s" % (PID, path))
            return 1
        return 0
    wd = vlib.workdir(PID)
    ops = to_ops(v["payload"]["trace"])
    beh, trace = os.path.join(wd, "replay_beh.ndjson"), os.path.join(wd, "replay_trace.ndjson")
    open(beh, "w").write(json.dumps(ops) + "\n")
    vlib.vhx("vh-antiamp", ["replay", beh, trace])
    r = vlib.validate_traces(PID, "Trace_AntiAmp", TR_CFG, trace, nchunks=1, constants=TRACE_CONSTS)
    if r["rejected"]:
        print("  reproduced:", *common.signature(PID, COMP, r["rejected"][0]))
        print("VIOLATION property=%s replay=%s" % (PID, path))
        return 1
    print("not reproduced on the current tree")
    return 0
