"""C15 — an unvalidated address never receives more than 3x what it sent.
spec: AntiAmp.tla; MC_AntiAmp (atomic-operation interleavings of receive path x validation path x burst task),
Gen_AntiAmp (all public call sequences), Trace_AntiAmp (TraceNext: calls on the real AntiAmplifier/ArcSendWaker/Constraints;
PathTraceNext: per-path byte events of a full-stack run)."""
import json, os, random, re, time
import vlib
from checks import common, sim

BINS = ["vh-antiamp", "vh-sim"]
PID, COMP = "C15", "AntiAmp"

# the budget discipline the property asks for / the three named deviations of the code
DISCIPLINE = {"RereadPerSegment": "FALSE", "PadBeyondCredit": "FALSE", "WrapOnOverdraft": "FALSE"}
AS_CODED = {"RereadPerSegment": "TRUE", "PadBeyondCredit": "TRUE", "WrapOnOverdraft": "FALSE"}   # on_sent saturates since 456e429
BASE = {"N": 3}
MC_INVS = ("TypeOK", "Amp3x", "CreditNeverWraps", "ResumeOnRcvdOrGrant", "WakeAfterChange")
MC_CFG = common.mc_cfg(invs=MC_INVS, props=("DeadIsFinal",))
MC_LIVE_CFG = "SPECIFICATION MCSpec\nVIEW View\nPROPERTY Resumes\nCHECK_DEADLOCK FALSE\n"
# call-granularity traces: exact replay + the property invariants; the wrap is reported softly (the model follows the code)
TR_CFG = common.trace_cfg(invs=("TypeOK", "Amp3xDisciplined", "ResumeOnRcvdOrGrantCall", "AbortedNoBalance", "SoftCreditNeverWraps"))
# per-path byte streams of a full-stack run: property invariant only
PATH_CFG = ("INIT TraceInit\nNEXT PathTraceNext\nINVARIANT SoftAmp3x\nPOSTCONDITION TraceAccepted\nCHECK_DEADLOCK FALSE\n")
TRACE_CONSTS = dict(BASE, MTU=1200, MaxSeg=1, **AS_CODED)
MC_ACTIONS = ["RxRcvd", "R_Load", "R_Add", "R_Wake", "CtlGrant", "CtlAbort", "G_Cas", "A_Cas", "G_Wake",
              "BurstBegin", "B_Load", "B_Credit", "B_Reload", "B_Wake", "BalanceDone", "BurstSegment", "PadInitial",
              "DebitBegin", "S_Load", "S_Sub", "DebitDone", "SendPackets", "W_Poll", "WaitDone", "Woken"]


def mc_consts(flags, **over):
    c = dict(BASE, MTU=4, MaxSeg=2, RcvSizes="{1, 2}", MaxRcvdBytes=2, Quotas="{2, 1073741824}", PktSeqs="<- MCPkts", MaxBursts=2)
    c.update(flags)
    c.update(over)
    return c


def is_hit(line):
    """non-trivial run: bytes were debited from a positive budget, or a parked sender was woken."""
    return '"ev":"sent"' in line or ('"wakes":0' not in line and '"ev":"reset"' not in line)


def expect_counterexample(rep, name, consts, invariant):
    """Diagnostic: TLC on the model *as coded* must exhibit the named deviation (the spec does not silently share it).
    Not a verdict about the implementation; recorded in the evidence only."""
    wd = vlib.workdir(PID)
    cfg = os.path.join(wd, "MC_AntiAmp_%s.cfg" % name)
    vlib.write_cfg(cfg, MC_CFG, consts)
    rc, out, wall = vlib._java("MC_AntiAmp.tla", cfg, os.path.join(wd, "meta_mc_" + name), vlib.NCPU, timeout=900, xmx=vlib.XMX)
    with open(os.path.join(wd, "MC_AntiAmp_%s.log" % name), "w") as f:
        f.write(out)
    m = vlib._INVV.search(out)
    st = vlib.parse_stats(out)
    st["wall_s"] = round(wall, 1)
    steps = len(re.findall(r"^State \d+:", out, re.M))
    if not m:
        raise vlib.ToolError("the model of the code as written (%s) no longer exhibits a deviation: the spec lost its binding to burst.rs/aa.rs" % name)
    rep.cov["parts"]["MC_AntiAmp/as-coded/" + name] = {"distinct": st["distinct"], "generated": st["generated"], "wall_s": st["wall_s"],
                                                        "model_counterexample": m.group(1), "length": steps}
    vlib.log("TLC MC_AntiAmp as coded (%s): %s violated by a %d-step model behaviour (diagnostic), %.1fs" % (name, m.group(1), steps, wall))


def sig(pid, comp, rej):
    s, what = common.signature(pid, comp, rej)
    if s.endswith("/no"):      # "no spec step matches this event"
        s = s[:-3] + "/NotAStep"
    return s, what


def path_scenario(seed, max_segments, faults, **kw):
    sc = {"seed": seed, "bounded": False, "bi": 1, "uni": 0, "size": 3000, "chunk": 1000, "faults": faults, "qlog": "none",
          "deadline_ms": 12000, "lat_ms": 5, "max_segments": max_segments, "sparams": {"idle_ms": 4000}, "cparams": {"idle_ms": 4000}}
    sc.update(kw)
    return sc


def path_scenarios(quick):
    """handshakes in which the server's path stays unvalidated for a while: the client's datagrams stop arriving after the first
    k (one-way blackhole), the server's first flight is lost, or everything is lossy; 1 / 4 / 64 segments per sendmmsg."""
    out = []
    n = 0
    for ms in (1, 4, 64):
        for k in ((1, 2) if quick else (1, 2, 3, 4)):
            n += 1
            out.append(path_scenario(vlib.seed() * 1000 + n, ms, {"blackhole": {"c2s": k}}))
    for ms, drops in ((4, ["0", "1"]), (1, ["1"])) if quick else ((4, ["0", "1"]), (1, ["1"]), (64, ["0", "1", "2"]), (4, ["0"])):
        n += 1
        out.append(path_scenario(vlib.seed() * 1000 + n, ms, {"s2c": {i: "drop" for i in drops}}))
    # the datagrams that would carry the client's first Handshake packets are lost: the server stays unvalidated while
    # further client datagrams (retransmitted Initial, 1-RTT) keep arriving
    for ms, lost in ((4, range(2, 6)), (64, range(1, 8))) if quick else ((4, range(2, 6)), (64, range(1, 8)), (1, range(2, 12)), (64, range(2, 20))):
        n += 1
        out.append(path_scenario(vlib.seed() * 1000 + n, ms, {"c2s": {str(i): "drop" for i in lost}}))
    n += 1
    out.append(path_scenario(vlib.seed() * 1000 + n, 4, {}))
    if not quick:
        rnd = random.Random(vlib.seed())
        for i in range(150):
            f = {"drop": rnd.choice([10, 25, 40]), "dup": rnd.choice([0, 5]), "delay": rnd.choice([0, 10]), "until_ms": rnd.choice([300, 2000])}
            if rnd.random() < 0.4:
                f["blackhole"] = {"c2s": rnd.choice([1, 2, 3, 5])}
            out.append(path_scenario(vlib.seed() * 1000 + 100 + i, rnd.choice([1, 4, 64]), f, size=rnd.choice([0, 3000, 20000]),
                                     lat_ms=rnd.choice([1, 5, 30])))
    return out


def path_events(simtrace, out):
    """Project a vh-sim trace onto the byte stream of the SERVER's path (the client's own path is granted at creation):
    rcvd = a client datagram is delivered to the server's socket (all payload bytes count, RFC 9000 8.1);
    sent = the server hands a datagram to the IO sender (whatever the network does with it afterwards);
    grant = the earliest moment the server can have validated the address: the delivery of the first client datagram that
            carries a Handshake packet (the scenarios use neither tokens nor Retry).  Later events of the run are not judged."""
    J = lambda d: json.dumps(d, separators=(",", ":"))
    n = 0
    with open(simtrace) as f, open(out, "w") as o:
        hs = set()
        granted = False
        for line in f:
            e = json.loads(line)
            k = e.get("ev")
            if k == "reset":
                hs, granted = set(), False
                o.write(J({"ev": "reset", "sc": e.get("sc")}) + "\n")
                n += 1
            elif k == "dgram" and e["dir"] == "c2s":
                if any(p.get("ty") == "handshake" for p in e.get("pkts", [])):
                    hs.add(e["i"])
            elif k == "dlv" and e["dir"] == "c2s":
                o.write(J({"ev": "rcvd", "n": e["len"], "t": e["t"], "i": e["i"]}) + "\n")
                if e["i"] in hs and not granted:
                    granted = True
                    o.write(J({"ev": "grant", "t": e["t"]}) + "\n")
            elif k == "dgram" and e["dir"] == "s2c":
                o.write(J({"ev": "sent", "n": e["len"], "t": e["t"], "i": e["i"],
                                    "pkts": [[p.get("ty"), p.get("len")] for p in e.get("pkts", [])]}) + "\n")
            elif k == "panic":
                o.write(J({"ev": "panic", "op": ["sim"], "msg": e.get("msg", "")}) + "\n")
    return n


def path_hit(line):
    return '"ev":"sent"' in line


def validate_path_trace(rep, tracefile, part="paths/sim"):
    """binding (b): tracefile holds, per run, a `reset` event followed by the server path's
    {"ev":"rcvd","n":..} / {"ev":"sent","n":..} / {"ev":"grant"} / {"ev":"abort"} in the order the network saw them."""
    return common.validate(rep, PID, "Path", "Trace_AntiAmp", PATH_CFG, tracefile, part, path_hit, constants=TRACE_CONSTS)


def run_paths(rep, quick, name="paths"):
    wd = vlib.workdir(PID)
    simtrace, _ = sim.run_sim(PID, name, path_scenarios(quick))
    ptrace = os.path.join(wd, "%s_events.ndjson" % name)
    path_events(simtrace, ptrace)
    return validate_path_trace(rep, ptrace, "paths/sim")


def run(tier, rep):
    quick = tier == "quick"
    # 1. the design: every interleaving of the atomic operations; the discipline satisfies the property
    if quick:
        models = [("discipline", {})]
    else:
        models = [("discipline", {"RcvSizes": "{0, 1, 2}", "MaxRcvdBytes": 3})]
    for name, over in models:
        st = vlib.tlc_mc(PID, "MC_AntiAmp", MC_CFG, mc_consts(DISCIPLINE, **over), need_actions=MC_ACTIONS if name == "discipline" else None)
        rep.add_mc("MC_AntiAmp/" + name, st)
    if not quick:
        st = vlib.tlc_mc(PID, "MC_AntiAmp", MC_LIVE_CFG, mc_consts(DISCIPLINE, MaxBursts=1), need_actions=["W_Poll", "Woken"])
        rep.add_mc("MC_AntiAmp/liveness", st)
    # 1b. diagnostics: each named deviation of the burst loop, alone, breaks the property in the model
    for name in ("RereadPerSegment", "PadBeyondCredit"):
        flags = dict(DISCIPLINE)
        flags[name] = "TRUE"
        expect_counterexample(rep, name, mc_consts(flags, MaxBursts=1), "Amp3x")
    # 2. + 3. spec -> real AntiAmplifier -> spec
    full = "{0, 1, 400, 1200}"
    if quick:
        parts = [("d4", {"RcvSizes": full, "Depth": 4, "After": 2}), ("d5", {"RcvSizes": "{1, 1200}", "Depth": 5, "After": 1})]
    else:
        parts = [("d5", {"RcvSizes": full, "Depth": 5, "After": 2}), ("d6", {"RcvSizes": "{1, 1200}", "Depth": 6, "After": 1})]
    wd = vlib.workdir(PID)
    for part, c in parts:
        consts = dict(TRACE_CONSTS, SegCases="<- GenSegCases", **c)
        beh = os.path.join(wd, "beh_%s.ndjson" % part)
        trace = os.path.join(wd, "trace_%s.ndjson" % part)
        g = vlib.tlc_gen(PID, "Gen_AntiAmp", common.GEN_CFG, consts, beh)
        rep.add_mc("Gen_AntiAmp/" + part, g)
        vlib.vhx("vh-antiamp", ["replay", beh, trace])
        common.validate(rep, PID, COMP, "Trace_AntiAmp", TR_CFG, trace, "calls/" + part, is_hit, sig, constants=TRACE_CONSTS)
    # 4. the real Burst::burst / load_spaces / Path::send_packets loop: per-path byte streams of full-stack runs
    run_paths(rep, quick)
    rep.cov["rule"] = ("(1) TLC explores every interleaving of the individual atomic operations of on_rcvd / balance / on_sent / grant / abort / "
                       "SendWaker critical sections for one receive task, one validation task and the burst task (multi-segment bursts under "
                       "Constraints, Initial padding, debit after the burst) and checks sent <= 3*rcvd while NORMAL, no wrap, no lost resume, dead is final; "
                       "(2) every sequence of public calls to the stated depth (on_rcvd 0/1/400/1200, balance, on_sent below/at/above the balance read, "
                       "grant, abort, wait_for(CREDIT) polls with a counting waker, datagram assemblies under the real Constraints) is executed on the real "
                       "AntiAmplifier and every step validated by TLC (result, counter, state, required wake-ups); "
                       "(3) full-stack runs (real client + server over the in-memory network, 1/4/64 segments per send) in which the server's path stays "
                       "unvalidated (client datagrams black-holed after the first k, server flight lost, lossy links): the server path's byte stream as the "
                       "network saw it is validated by TLC against sent <= 3*rcvd until the earliest possible validation. "
                       "distinct_nontrivial = distinct call runs with at least one on_sent or one wake-up of a parked sender + distinct path runs in which the server sent.")
    rep.cov["exhaustive"] = True
    rep.assumptions += ["one burst task per path (balance/on_sent are called by one task at a time, as aa.rs requires)",
                        "packet sizes and counts stay below 2^31 (TLC integers); the counter is observed as a signed 64-bit value",
                        "the real Burst::load_spaces / Path::send_packets loop is bound through the full-stack simulation's per-path byte "
                        "streams (PathTraceNext); at component level the burst loop exists in the model only",
                        "full-stack scenarios use neither address-validation tokens nor Retry, so the server cannot validate the client's address "
                        "before a datagram carrying a Handshake packet has been delivered to it"]


def to_ops(trace):
    ops = []
    for e in trace[1:]:
        k = e["ev"]
        if k in ("rcvd", "sent"): ops.append([k, e["n"]])
        elif k in ("balance", "grant", "abort", "wait"): ops.append([k])
        elif k == "seg": ops.append([k, e["case"]])
        elif k == "noop": ops.append(["seg", 1])
        elif k == "panic": ops.append(e["op"])
    return ops


def replay(path):
    v = json.load(open(path))
    if v["payload"].get("component") == "Path":
        wd = vlib.workdir(PID)
        sc = v["payload"]["trace"][0].get("sc")
        simtrace, _ = sim.run_sim(PID, "replay", [sc])
        ptrace = os.path.join(wd, "replay_events.ndjson")
        path_events(simtrace, ptrace)
        r = vlib.validate_traces(PID, "Trace_AntiAmp", PATH_CFG, ptrace, nchunks=1, constants=TRACE_CONSTS)
        if r["rejected"]:
            print("  reproduced:", *common.signature(PID, "Path", r["rejected"][0]))
            print("VIOLATION property=%s replay=%s" % (PID, path))
            return 1
        print("not reproduced on the current tree")
        return 0
    wd = vlib.workdir(PID)
    ops = to_ops(v["payload"]["trace"])
    beh, trace = os.path.join(wd, "replay_beh.ndjson"), os.path.join(wd, "replay_trace.ndjson")
    open(beh, "w").write(json.dumps(ops) + "\n")
    vlib.vhx("vh-antiamp", ["replay", beh, trace])
    r = vlib.validate_traces(PID, "Trace_AntiAmp", TR_CFG, trace, nchunks=1, constants=TRACE_CONSTS)
    if r["rejected"]:
        print("  reproduced:", *common.signature(PID, COMP, r["rejected"][0]))
        print("VIOLATION property=%s replay=%s" % (PID, path))
        return 1
    print("not reproduced on the current tree")
    return 0
