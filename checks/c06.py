"""C06 — packet protection round-trips and rejects any modified packet.
spec: PacketProt.tla (symbolic AEAD judge + the code-shaped 1-RTT key-phase machine of OneRttPacketKeys);
MC_PacketProt (the machine satisfies the judge), Gen_PacketProt (case matrix + key-phase schedules),
Trace_PacketProt (records of the real PacketWriter / receive path judged by the spec).  harness: vh-packetprot."""
import json, os, re
import vlib

BINS = ["vh-packetprot"]
PID = "C06"

MC_CFG = "INIT MCInit\nNEXT MCNext\nINVARIANT MCInv\nCHECK_DEADLOCK FALSE\n"
MATRIX_CFG = "INIT MatrixInit\nNEXT MatrixNext\nINVARIANT MatrixEmit\nCHECK_DEADLOCK FALSE\n"
SEQ_CFG = "INIT SeqInit\nNEXT SeqNext\nINVARIANT SeqEmit\nCHECK_DEADLOCK FALSE\n"
# soft invariant of Trace_PacketProt -> name it reports
SOFT = {"SoftNoForgedDelivered": "ForgedDelivered", "SoftGenuineAccepted": "GenuineRejected", "SoftStaleReadKey": "GenuineRejected_StaleReadKey",
        "SoftBitIdentical": "NotBitIdentical", "SoftNothingElse": "ExtraPacketDelivered", "SoftDiscardedSilently": "ConnErrorOnUnauthenticated",
        "SoftNoPanic": "Panic", "DiagShadow": "DiagShadow"}


def trace_cfg(diag, without=()):
    s = "INIT TraceInit\nNEXT TraceNext\nINVARIANT TypeOK\n"
    for i in SOFT:
        if (i == "DiagShadow" and not diag) or SOFT[i] in without:
            continue
        s += "INVARIANT %s\n" % i
    return s + "POSTCONDITION TraceAccepted\nCHECK_DEADLOCK FALSE\n"


GEN_DEFAULTS = {"Toks": "{0}", "Dcids": "{8}", "Scids": "{8}", "Plens": "{2}", "Pays": '{"small"}', "Gens": "{0}",
                "Depth": 1, "MaxGen": 3, "Alphabet": '{"s"}'}


def _slug(msg):
    return re.sub(r"[^A-Za-z0-9]+", "_", msg)[:70].strip("_")


def signature(rej):
    run, at = rej["run"], rej["at"]
    ev = run[at - 1] if 0 < at <= len(run) else {"ev": "eof"}
    reason = rej["reason"].split()[0]
    if ev.get("ev") == "panic":
        return "C06/PacketProt/panic/%s" % ev.get("phase", "unknown"), \
            "panic in the code under test during %s (%s; %s occurrence(s) in this step): %s" % (
                ev.get("phase"), json.dumps(ev.get("op")), ev.get("n", 1), ev.get("msg", "")[:240])
    if ev.get("ev") == "rx":
        what = "%s packet gen=%s pn=%s pn_len=%s tamper=%s keys=%s presented %s time(s): delivered %s, bit-identical %s, extra %s, outcomes %s" % (
            ev["sp"], ev["gen"], ev["pn"], ev["plen"], ev["tamper"], ev["keys"], ev["n"], ev["nacc"], ev["nident"], ev["extra"],
            json.dumps(ev.get("outcomes")))
        if ev.get("bad"):
            what += "; first delivered bit positions %s" % ev["bad"]
        return "C06/PacketProt/rx/%s" % reason, "%s: %s" % (reason, what)
    return "C06/PacketProt/%s/%s" % (ev.get("ev"), reason), "event %d (%s): %s" % (at, json.dumps(ev)[:300], rej["reason"])


def _stats(tracefile):
    """measured from the records: runs, presentations, genuine packets delivered, diagnostics"""
    st = {"runs": 0, "presentations": 0, "genuine_delivered": 0, "tampered_presentations": 0, "conn_error_on_unauthenticated": 0,
          "panics": 0, "premature_key_updates": 0, "regions": {}, "recovered": set()}
    seen, cur, hit = set(), [], False
    prev_phase = 0
    with open(tracefile) as f:
        for line in f:
            ev = json.loads(line)
            if ev["ev"] == "reset":
                if cur and hit:
                    seen.add(hash(tuple(cur)))
                cur, hit, prev_phase = [], False, 0
                st["runs"] += 1
                continue
            cur.append(line)
            if ev["ev"] == "panic":
                st["panics"] += ev.get("n", 1)
            if ev["ev"] != "rx":
                continue
            st["presentations"] += ev["n"]
            tampered = ev["tamper"] != "none" or ev["keys"] != "same"
            if tampered:
                st["tampered_presentations"] += ev["n"]
                r = st["regions"].setdefault(ev["tamper"] if ev["keys"] == "same" else "wrongkeys", [0, 0])
                r[0] += ev["n"]
                r[1] += ev["nacc"]
                st["conn_error_on_unauthenticated"] += ev.get("outcomes", {}).get("conn_error", 0)
            elif ev["nident"] > 0:
                st["genuine_delivered"] += 1
                st["recovered"].add((ev["sp"], ev["gen"], ev["plen"]))
                hit = True
            if ev["n"] == 1 and ev["nacc"] == 0 and ev["cur_phase"] != prev_phase:
                st["premature_key_updates"] += 1
            prev_phase = ev["cur_phase"]
    if cur and hit:
        seen.add(hash(tuple(cur)))
    st["nontrivial"] = len(seen)
    return st


def _validate(rep, part, trace, diag):
    r = vlib.validate_traces(PID, "Trace_PacketProt", trace_cfg(diag), trace)
    # vlib reports at most 200 soft violations per chunk and round: make sure the many hits of one kind (e.g. the known one) do
    # not hide another kind in a later run -- validate again without the invariants that already fired, until nothing new shows
    seen, last = set(), r["rejected"]
    for _ in range(4):
        if len(last) < 150:
            break
        seen |= {x["reason"].split()[0] for x in last}
        r2 = vlib.validate_traces(PID, "Trace_PacketProt", trace_cfg(diag, without=seen), trace)
        last = r2["rejected"]
        r["rejected"] += last
    st = _stats(trace)
    # vacuity: the round-trip direction must have been exercised for what the part claims to cover
    need = ([(sp, 0, n) for sp in ("initial", "zerortt", "handshake") for n in (1, 2, 3, 4)] + [("onertt", g, n) for g in (0, 1, 2) for n in (1, 2, 3, 4)]
            if part == "matrix" else [("onertt", g, 2) for g in (0, 1, 2)])
    missing = [x for x in need if x not in st["recovered"]]
    rep.add_traces(part, r["runs"], st["nontrivial"], r["events"])
    rep.cov["parts"][part].update({k: st[k] for k in ("presentations", "tampered_presentations", "genuine_delivered",
                                                     "conn_error_on_unauthenticated", "premature_key_updates", "panics")})
    if part == "matrix":
        rep.cov["parts"][part]["premature_key_updates"] = None   # only meaningful where every record is one presentation
    rep.cov["parts"][part]["tampered_by_region_presented_delivered"] = st["regions"]
    with open(trace) as f:
        lines = [l for _, l in zip(range(5), f)]
    rep.sample({"part": part, "first_events": [json.loads(x) for x in lines]})
    ndiag = 0
    for rej in r["rejected"]:
        if rej["reason"].startswith("DiagShadow"):
            ndiag += 1
            continue
        sig, what = signature(rej)
        rep.violation(sig, what, {"component": "PacketProt", "part": part, "rejected_at": rej["at"], "reason": rej["reason"], "trace": rej["run"]})
    rep.cov["parts"][part]["diag_shadow_mismatch_runs"] = ndiag
    if (missing or st["tampered_presentations"] == 0) and len(r["rejected"]) == ndiag:
        # (when something was rejected the violation explains the gap; otherwise the part did not exercise what it claims)
        raise vlib.ToolError("vacuity: %s never recovered a genuine packet for %s (or nothing tampered was presented)" % (part, missing[:6]))
    return st


def run(tier, rep):
    wd = vlib.workdir(PID)
    quick = tier == "quick"
    # 1. the key-phase machine against the judge
    st = vlib.tlc_mc(PID, "MC_PacketProt", MC_CFG, {"MaxGen": 3, "MaxPn": 3 if quick else 6, "Policy": '"rfc"'},
                     need_actions=["Send", "Deliver", "Lose", "Forge", "Foreign", "Long", "Update", "PhaseOut"])
    rep.add_mc("MC_PacketProt/rfc", st)
    st = vlib.tlc_mc(PID, "MC_PacketProt", MC_CFG, {"MaxGen": 2 if quick else 3, "MaxPn": 3 if quick else 5, "Policy": '"deployed"'},
                     need_actions=["Send", "Deliver", "Forge", "Update"])
    rep.add_mc("MC_PacketProt/deployed", st)

    # 2. case matrix
    consts = dict(GEN_DEFAULTS)
    if quick:
        consts.update({"Toks": "{0, 1, 63, 64}", "Dcids": "{0, 1, 8, 20}", "Scids": "{0, 8, 20}", "Plens": "{1, 2, 3, 4}",
                       "Pays": '{"min", "small", "medium", "full"}', "Gens": "{0, 1, 2}"})
        bits, samples = 2400, 160
    else:
        consts.update({"Toks": "{0, 1, 63, 64, 300}", "Dcids": "{0, 1, 4, 8, 16, 20}", "Scids": "{0, 1, 4, 8, 16, 20}", "Plens": "{1, 2, 3, 4}",
                       "Pays": '{"min", "small", "medium", "full"}', "Gens": "{0, 1, 2}"})
        bits, samples = 9600, 0
    cases = os.path.join(wd, "cases.ndjson")
    g = vlib.tlc_gen(PID, "Gen_PacketProt", MATRIX_CFG, consts, cases)
    rep.add_mc("Gen_PacketProt/matrix", g)
    trace = os.path.join(wd, "trace_matrix.ndjson")
    vlib.vhx("vh-packetprot", ["matrix", cases, trace, vlib.seed(), bits, samples, min(vlib.NCPU, 8)])
    _validate(rep, "matrix", trace, diag=False)

    # 3. key-phase schedules
    consts = dict(GEN_DEFAULTS)
    consts.update({"Depth": 6 if quick else 8, "MaxGen": 3, "Alphabet": '{"s", "f", "u", "o", "p"}' if quick else '{"s", "f", "t", "u", "o", "p"}'})
    beh = os.path.join(wd, "schedules.ndjson")
    g = vlib.tlc_gen(PID, "Gen_PacketProt", SEQ_CFG, consts, beh)
    rep.add_mc("Gen_PacketProt/schedules", g)
    trace = os.path.join(wd, "trace_seq.ndjson")
    vlib.vhx("vh-packetprot", ["seq", beh, trace, min(vlib.NCPU, 8)])
    _validate(rep, "schedules", trace, diag=True)

    rep.cov["rule"] = (
        "TLC model-checks the code-shaped 1-RTT key-phase machine (cur_phase, two read-key slots, update-before-authentication, phase_out) "
        "against the symbolic judge under reordering, loss, forged copies with any key-phase bit and foreign keys. "
        "Spec-generated, spec-judged replay: (matrix) TLC enumerates packet type x token length x key generation x dcid/scid length x "
        "pn length x payload class with the tamper kinds that exist for each; the harness assembles each packet with the real PacketWriter + "
        "encrypt_and_protect_packet and real rustls keys of a real in-memory TLS handshake, flips EVERY bit of each region "
        "(regions above %d bits: first/last 16 bits + %d random positions), truncates/extends, shifts the packet number by one window, "
        "uses foreign keys / a key two generations ahead, and runs PacketReader -> CipherPacket::decrypt_* with RcvdJournal::decode_pn; "
        "(schedules) every environment schedule of the stated depth over {genuine, flipped key-phase copy, sender update, late old-generation "
        "packet, phase_out}. TLC judges every record: delivered iff authentic, same key generation, reconstructable pn; delivered => header, "
        "pn, key phase and payload identical; nothing else delivered from the datagram. The universal claim over all bit positions rests on "
        "AEAD and is tested, not decided by TLC. distinct_nontrivial = distinct runs in which a genuine packet was recovered bit-identically."
        % (bits, samples))
    rep.cov["exhaustive"] = False
    rep.assumptions += [
        "AEAD / header protection are symbolic in the specification; the real rustls (ring) keys are exercised by the harness only",
        "the sender follows RFC 9001 6.1 (next key update only after a packet of the current generation was accepted)",
        "packet numbers and receiver positions stay below 2^30 (TLC integers); a 4-byte packet number never wraps there",
        "a connection error returned for an unauthenticated packet (reserved bits checked before the AEAD) counts as 'not delivered' "
        "(anchors.observe_at: 'None / Err returned'); it is reported as a diagnostic count only",
    ]


def replay(path):
    """Re-execute a stored violation on the current tree: the run's case / schedule is fed to the harness again."""
    v = json.load(open(path))
    wd = vlib.workdir(PID)
    run0 = v["payload"]["trace"][0]
    inp, trace = os.path.join(wd, "replay_in.ndjson"), os.path.join(wd, "replay_trace.ndjson")
    sched = run0.get("ops") or (run0.get("case") if isinstance(run0.get("case"), list) else None)
    if sched is not None:
        open(inp, "w").write(json.dumps(sched) + "\n")
        vlib.vhx("vh-packetprot", ["seq", inp, trace, 1])
    else:
        open(inp, "w").write(json.dumps(run0["case"]) + "\n")
        vlib.vhx("vh-packetprot", ["matrix", inp, trace, vlib.seed(), 9600, 0, 1])
    r = vlib.validate_traces(PID, "Trace_PacketProt", trace_cfg(sched is not None), trace, nchunks=1)
    hits = [signature(x) for x in r["rejected"] if not x["reason"].startswith("DiagShadow")]
    same = [h for h in hits if h[0] == v["signature"]]
    for sig, what in (same or hits)[:3]:
        print("  reproduced:" if same else "  different violation:", sig, what)
    if hits:
        print("VIOLATION property=%s replay=%s" % (PID, path))
        return 1
    print("not reproduced on the current tree")
    return 0
