"""Extension X1 — the output scheduler of the stream layer (which stream puts how many bytes into the next packet).
C01's liveness clause ("every written byte eventually becomes readable") silently depends on it.

spec: StreamSched.tla (the design: descending round robin from a cursor, token bucket per visit, refill rule);
MC_StreamSched (design closed with an environment: bounded wait, one visit per round, NoStarvation liveness),
Gen_StreamSched (environment schedules: exhaustive to a depth after scripted prefixes + simulation walks),
Trace_StreamSched (every recorded try_load_data_into_once judged; bounded NoStarvation on the recorded run).
harness: vh-sched (one real DataStreams + FlowController + Parameters, packets filled like qconnection does).

run_part(pid, tier, rep) ADDS parts (prefix `sched/`) to the Report of property `pid`."""
import json, os, re
import vlib

BINS = ["vh-sched"]
COMP = "StreamSched"
TRACE_CFG = ("INIT TraceInit\nNEXT TraceNext\nINVARIANT ContractHolds\nINVARIANT SoftHolds\nINVARIANT StateOk\n"
             "POSTCONDITION TraceAccepted\nCHECK_DEADLOCK FALSE\n")
TRACE_CONSTS = {"T": 4096, "MinRoom": 25, "WatchSet": "<- AllIds"}
GEN_CFG = "INIT GenInit\nNEXT GenNext\nINVARIANT Emit\nCHECK_DEADLOCK FALSE\n"
SOFT = ("RefillSameStream", "NoStarvationByRefill")

MC_BASE = {"T": 2, "MinRoom": 2, "Ids": "{0, 1, 2}", "Windowed": "{1}", "MaxPend": 2, "MaxRoom": 2, "MaxCredit": 2,
           "Caps": "{4}", "Ovh": 1, "Interleave": "FALSE"}
MC_SAFE = "INIT MCInit\nNEXT MCNext\nVIEW View\nINVARIANT MCInv\nCHECK_DEADLOCK FALSE\n"

def signature(pid, rej):
    run, at = rej["run"], rej["at"]
    ev = run[at - 1] if 0 < at <= len(run) else {"ev": "eof"}
    reason = rej["reason"]
    name = reason.split()[0]
    if ev.get("ev") == "panic":
        op = ev.get("op")
        opn = op[0] if isinstance(op, list) and op else str(op)
        return "%s/%s/panic/%s" % (pid, COMP, opn), "panic in the stream scheduler on %s: %s" % (json.dumps(op), ev.get("msg", "")[:240])
    if name in SOFT:
        return "%s/%s/%s/%s" % (pid, COMP, ev.get("ev"), name), \
            "event %d (%s): %s" % (at, json.dumps(ev)[:300], DEVIATION[name])
    if name == "ContractHolds" and ": " in reason:
        why = re.sub(r"[^A-Za-z0-9]+", "_", reason.split(": ", 1)[1]).strip("_")[:60]
        return "%s/%s/%s/%s" % (pid, COMP, ev.get("ev"), why), \
            "event %d (%s) of the recorded run contradicts StreamSched.tla: %s" % (at, json.dumps(ev)[:300], why)
    if name == "no":
        name = "NoSpecStep"
    return "%s/%s/%s/%s" % (pid, COMP, ev.get("ev"), name), \
        "event %d (%s) of the recorded run is not a behaviour of StreamSched.tla: %s" % (at, json.dumps(ev)[:300], reason)


DEVIATION = {
    "RefillSameStream": "the stream whose token bucket was just used up was served again with a fresh bucket although another stream "
                        "was sendable (the documented design moves on to the next stream)",
    "NoStarvationByRefill": "a stream stayed sendable and unserved while another stream sent more than one token bucket (4096 bytes): "
                            "the bucket of the stream under the cursor is refilled on the spot",
}


def switches(tracefile):
    """distinct runs in which the scheduler moved from one stream to another at least once."""
    seen, cur, hit, last = set(), [], False, None
    with open(tracefile) as f:
        for line in f:
            if '"ev":"reset"' in line:
                if cur and hit:
                    seen.add(hash(tuple(cur)))
                cur, hit, last = [], False, None
                continue
            cur.append(line)
            if '"ev":"once"' in line and '"ok":true' in line:
                m = re.search(r'"sid":(-?\d+)', line)
                s = m.group(1) if m else None
                if last is not None and s != last:
                    hit = True
                last = s
    if cur and hit:
        seen.add(hash(tuple(cur)))
    return len(seen)


def validate(rep, pid, part, trace):
    r = vlib.validate_traces(pid, "Trace_StreamSched", TRACE_CFG, trace, constants=TRACE_CONSTS, tag="_sched")
    rep.add_traces(part, r["runs"], switches(trace), r["events"])
    with open(trace) as f:
        lines = [l for _, l in zip(range(14), f)]
    rep.sample({"part": part, "first_events": [json.loads(x) for x in lines[1:]]})
    for rej in r["rejected"]:
        sig, what = signature(pid, rej)
        rep.violation(sig, what, {"component": COMP, "module": "Trace_StreamSched", "rejected_at": rej["at"], "reason": rej["reason"],
                                  "trace": rej["run"]})
    return r


def expect_counterexample(pid, module, cfg_body, constants, what):
    """Model-check a property that the design variant is KNOWN not to have; returns the length of TLC's counterexample.
    Used to show at design level why the code's refill rule cannot give NoStarvation."""
    wd = vlib.workdir(pid)
    cfg = os.path.join(wd, module + "_cex.cfg")
    vlib.write_cfg(cfg, cfg_body, constants)
    rc, out, wall = vlib._java(module + ".tla", cfg, os.path.join(wd, "meta_cex_" + module), min(vlib.NCPU, 4), timeout=1500, xmx=vlib.XMX)
    with open(os.path.join(wd, module + "_cex.log"), "w") as f:
        f.write(out)
    if not re.search(r"Temporal propert(y \w+ was|ies were) violated", out):
        raise vlib.ToolError("expected TLC to refute %s, it did not (see %s_cex.log)" % (what, module))
    states = len(re.findall(r"^State \d+:", out, re.M))
    vlib.log("TLC %s: %s refuted as expected, counterexample of %d states, %.1fs" % (module, what, states, wall))
    return {"refuted": what, "counterexample_states": states, "wall_s": round(wall, 1)}


def model_check(pid, rep, quick):
    base = dict(MC_BASE)
    if not quick:
        base.update({"Interleave": "TRUE", "Caps": "{1, 4}"})
    need = ["DoOpen", "DoWrite", "DoShutdown", "DoCancel", "DoAckAll", "DoResetAcked", "DoWindowUpdate", "DoMaxData", "StartPack", "DoOnce"]
    # 1. documented design: bounded wait / one visit per round / tokens / cursor, for the observed stream(s)
    for obs in ((1,) if quick else (0, 1, 2)):
        st = vlib.tlc_mc(pid, "MC_StreamSched", MC_SAFE, dict(base, RefillSame="FALSE", WatchSet="{%d}" % obs), need_actions=need)
        rep.add_mc("sched/MC_StreamSched/design/wait-of-%d" % obs, st)
    # liveness on the smaller environment; quick: no stream window at all (credit is the only flow control)
    live = dict(MC_BASE, Windowed="{}" if quick else "{1}")
    need_live = [a for a in need if not (quick and a == "DoWindowUpdate")]
    # 2. documented design: NoStarvation (liveness) under fair packet assembly; history accounting off
    st = vlib.tlc_mc(pid, "MC_StreamSched", "SPECIFICATION MCSpec\nPROPERTY NoStarvation\nCHECK_DEADLOCK FALSE\n",
                     dict(live, RefillSame="FALSE", WatchSet="{}"), need_actions=need_live)
    rep.add_mc("sched/MC_StreamSched/design/NoStarvation", st)
    # 3. the code's refill rule: one visit per round still holds, service is guaranteed only once the writes stop
    if not quick:
        st = vlib.tlc_mc(pid, "MC_StreamSched", "SPECIFICATION MCSpec\nINVARIANT MCInv\nPROPERTY CodeGuarantee\nCHECK_DEADLOCK FALSE\n",
                         dict(live, RefillSame="TRUE", WatchSet="{1}"), need_actions=need_live)
        rep.add_mc("sched/MC_StreamSched/code/CodeGuarantee", st)
    # 4. ... and NoStarvation itself is refuted for it (explains the recorded deviation at design level)
    cex = expect_counterexample(pid, "MC_StreamSched", "SPECIFICATION MCSpec\nPROPERTY NoStarvation\nCHECK_DEADLOCK FALSE\n",
                                dict(live, RefillSame="TRUE", WatchSet="{}"), "NoStarvation under the code's refill rule")
    rep.cov["parts"]["sched/MC_StreamSched/code/NoStarvation"] = cex


GEN_BASE = {"T": 4096, "MinRoom": 25, "WatchSet": "{}", "Caps": "{30, 1200, 9000}", "Incs": "{3000}", "Drain": 60, "Refill": "TRUE"}
SCENARIOS = '{"round3", "exhausted3", "sparse4", "windows", "midfin", "midreset", "pair2", "blank"}'


def run_part(pid, tier, rep):
    wd = vlib.workdir(pid)
    quick = tier == "quick"
    model_check(pid, rep, quick)
    # spec -> impl -> spec: schedules enumerated by TLC after scripted prefixes, executed on the real DataStreams
    beh = os.path.join(wd, "sched_beh_gen.ndjson")
    trace = os.path.join(wd, "sched_trace_gen.ndjson")
    g = vlib.tlc_gen(pid, "Gen_StreamSched", GEN_CFG, dict(GEN_BASE, Use=SCENARIOS, Depth=2 if quick else 3), beh)
    rep.add_mc("sched/Gen_StreamSched/scenarios", g)
    vlib.vhx("vh-sched", ["replay", beh, trace])
    validate(rep, pid, "sched/tlc-schedules", trace)
    # deep walks of the same environment (TLC simulation mode)
    beh = os.path.join(wd, "sched_beh_walks.ndjson")
    trace = os.path.join(wd, "sched_trace_walks.ndjson")
    depth = 60
    g = vlib.tlc_gen(pid, "Gen_StreamSched", GEN_CFG, dict(GEN_BASE, Use='{"walk"}', Depth=depth, Drain=200),
                     beh, simulate={"num": 150 if quick else 1500, "depth": depth + 12})
    rep.add_mc("sched/Gen_StreamSched/walks", g)
    vlib.vhx("vh-sched", ["replay", beh, trace])
    validate(rep, pid, "sched/tlc-walks", trace)
    # seeded long schedules with continuous writers, bursts, small windows, stream turnover
    beh = os.path.join(wd, "sched_beh_random.ndjson")
    trace = os.path.join(wd, "sched_trace_random.ndjson")
    vlib.vhx("vh-sched", ["random", vlib.seed(), 400 if quick else 6000, 120, beh])
    vlib.vhx("vh-sched", ["replay", beh, trace])
    validate(rep, pid, "sched/random", trace)
    rule = ("[sched] environment schedules of the stream output scheduler (writes of several sizes on 2-4 streams, shutdown, reset, "
            "acknowledgements that remove a finished / reset stream, MAX_STREAM_DATA, MAX_DATA, new streams, packets of small / medium / "
            "large capacity) enumerated by TLC to the stated depth after scripted prefixes that put the cursor in the middle / at the end of a "
            "visit, plus TLC simulation walks and seeded long schedules with continuous writers; each executed on one real DataStreams + "
            "FlowController; EVERY call of try_load_data_into_once judged by TLC against StreamSched.tla (served stream = the one the design "
            "serves from the modelled cursor, bytes within tokens / windows / credit / room, refusal only when nothing is sendable, connection "
            "credit), bounded NoStarvation and one-visit-per-round evaluated on the recorded run. distinct_nontrivial = distinct runs in which the "
            "scheduler switched streams.")
    rep.cov["rule"] = (rep.cov.get("rule") or "") + (" " if rep.cov.get("rule") else "") + rule
    rep.assumptions += ["[sched] no loss in the scheduler harness: retransmission (Lost ranges, sendable without connection credit) is exercised by the C01 "
                        "composition, not here", "[sched] 1-RTT only (the `stream_allowed` filter of a rejected 0-RTT is C12's SendsBeyondRevisedStreamLimit)"]


def replay(pid, path):
    v = json.load(open(path))
    wd = vlib.workdir(pid)
    hdr = v["payload"]["trace"][0]
    if "ops" not in hdr:
        print("replay file carries no schedule")
        return 2
    beh, trace = os.path.join(wd, "sched_replay_beh.ndjson"), os.path.join(wd, "sched_replay_trace.ndjson")
    open(beh, "w").write(json.dumps([hdr["cfg"]] + json.loads(hdr["ops"])) + "\n")
    vlib.vhx("vh-sched", ["replay", beh, trace])
    r = vlib.validate_traces(pid, "Trace_StreamSched", TRACE_CFG, trace, constants=TRACE_CONSTS, nchunks=1, tag="_sched_replay")
    for rej in r["rejected"]:
        sig, what = signature(pid, rej)
        print("  reproduced: %s — %s" % (sig, what))
        print("VIOLATION property=%s replay=%s" % (pid, path))
        return 1
    print("not reproduced on the current tree")
    return 0
