"""C16 — no wake-up is ever lost.
spec: Wakers.tla (monitor + the two designs); MC_Wakers (designs vs NoLostWakeup / CloseWakesAll / EventuallyObserves, plus a
negative control), Gen_Wakers (every call order per class), Trace_Wakers (what the real objects did, judged by the monitor).
harness: vh-wakers (one counting Waker per task, one adapter per waiter/notifier object of the stack)."""
import json, os
from concurrent.futures import ThreadPoolExecutor
import vlib
from checks import common

PID = "C16"
BINS = ["vh-wakers"]
CONSTS = {"Waiters": "{1, 2}", "Sigs": '{"a", "b"}'}
MC_SAFE = "SPECIFICATION MCSafety\nINVARIANT Inv\nCHECK_DEADLOCK FALSE\n"
MC_LIVE = "SPECIFICATION MCSpec\nINVARIANT Inv\nPROPERTY EventuallyObserves\nCHECK_DEADLOCK FALSE\n"
TRACE_CFG = common.trace_cfg(invs=("TypeOK", "SoftResultAgrees", "SoftNoLostWakeup", "SoftCloseWakesAll"))
SLOT_ACTS = ["DoPoll", "DoDrop", "DoSet", "DoTouch", "DoClose"]
SW_ACTS = ["DoCheck", "DoWait", "DoRepoll", "DoSwDrop", "DoFlag", "DoNotify", "DoCellCheck", "DoCellSet", "DoCellClose"]


def signature(pid, comp, rej):
    """C16/<instance>/<event>/<invariant or reason>"""
    run, at = rej["run"], rej["at"]
    inst = run[0].get("inst", comp) if run else comp
    ev = run[at - 1] if 0 < at <= len(run) else {"ev": "eof"}
    if ev.get("ev") == "panic":
        op = ev.get("op")
        opn = op[0] if isinstance(op, list) and op else str(op)
        return "%s/%s/panic/%s" % (pid, inst, opn), "panic in %s on %s after %s: %s" % (
            inst, json.dumps(op), json.dumps([e.get("ev") for e in run[1:at - 1]]), ev.get("msg", "")[:240])
    calls = " ; ".join(_call(e) for e in run[1:at])
    return "%s/%s/%s/%s" % (pid, inst, ev.get("ev"), rej["reason"].split()[0]), \
        "%s: after the calls [%s] the recorded wake counters %s are not a behaviour of Wakers.tla: %s" % (
            inst, calls, ev.get("wk"), rej["reason"])


def _call(e):
    s = e["ev"]
    if "w" in e:
        s += "(task %d)" % e["w"]
    if "s" in e and e["ev"] != "check":
        s += "(%s)" % e["s"]
    if "r" in e:
        s += "->" + e["r"]
    return s


def sleeping_runs(tracefile):
    """distinct (instance, call order, results) runs in which at least one poll / wait returned Pending"""
    seen, cur, hit = set(), [], False
    with open(tracefile) as f:
        for line in f:
            if '"ev":"reset"' in line:
                if cur and hit:
                    seen.add(hash(tuple(cur)))
                cur, hit = [line], False
            else:
                cur.append(line)
                hit = hit or '"r":"pending"' in line
    if cur and hit:
        seen.add(hash(tuple(cur)))
    return len(seen)


def negative_control(rep):
    """two tasks on an Option<Waker> slot: TLC must find NoLostWakeup violated, otherwise the invariant is vacuous"""
    wd = vlib.workdir(PID + "/neg")
    cfg = os.path.join(wd, "MC_Wakers.cfg")
    vlib.write_cfg(cfg, MC_SAFE, dict(CONSTS, Configs="<- NegConfigs"))
    rc, out, wall = vlib._java("MC_Wakers.tla", cfg, os.path.join(wd, "meta"), 2, xmx="2g", timeout=600)
    open(os.path.join(wd, "MC_Wakers.mc.log"), "w").write(out)
    if "Invariant Inv is violated" not in out:
        raise vlib.ToolError("vacuity: the negative control (two tasks on a single waker slot) does not violate NoLostWakeup")
    return {"expected": "Inv violated (the second task replaces the first in a single slot)", "observed": "Inv violated", "wall_s": round(wall, 1)}


def replay_behaviours(beh, trace, only=None):
    args = ["replay", beh, trace] + (["--only", only] if only else [])
    p = vlib.vhx("vh-wakers", args, check=False)
    if p.returncode == 3:
        return None, p.stderr.strip().splitlines()[-1] if p.stderr.strip() else "{}"
    if p.returncode != 0:
        raise vlib.ToolError("vh-wakers replay exited %d: %s" % (p.returncode, p.stderr[-2000:]))
    return json.loads(p.stdout.strip().splitlines()[-1]), None


def run(tier, rep):
    quick = tier == "quick"
    wd = vlib.workdir(PID)
    beh = os.path.join(wd, "beh.ndjson")
    trace = os.path.join(wd, "trace.ndjson")
    w = max(2, vlib.NCPU // 3)
    # 1. the designs satisfy the property (model only); 2. every call order per class.  Four independent TLC runs, side by side.
    jobs = {
        "MC_Wakers/safety": lambda: vlib.tlc_mc(PID + "/safe", "MC_Wakers", MC_SAFE, dict(CONSTS, Configs="<- SafeConfigs" if quick else "<- SafeConfigsBig"),
                                                workers=w, need_actions=SLOT_ACTS + SW_ACTS),
        "MC_Wakers/liveness": lambda: vlib.tlc_mc(PID + "/live", "MC_Wakers", MC_LIVE, dict(CONSTS, Configs="<- LiveConfigs" if quick else "<- LiveConfigsBig"),
                                                  workers=w, need_actions=SLOT_ACTS + SW_ACTS),
        "MC_Wakers/negative-control": lambda: negative_control(rep),
        "Gen_Wakers": lambda: vlib.tlc_gen(PID + "/gen", "Gen_Wakers", common.GEN_CFG, dict(CONSTS, Classes="<- QuickClasses" if quick else "<- ThoroughClasses"),
                                           beh, workers=w),
    }
    with ThreadPoolExecutor(max_workers=4) as ex:
        futs = {k: ex.submit(f) for k, f in jobs.items()}
        res = {k: f.result() for k, f in futs.items()}
    for k in ("MC_Wakers/safety", "MC_Wakers/liveness", "Gen_Wakers"):
        rep.add_mc(k, res[k])
    rep.cov["parts"]["MC_Wakers/negative-control"] = res["MC_Wakers/negative-control"]
    stats, hang = replay_behaviours(beh, trace)
    if hang:
        h = json.loads(hang)
        rep.violation("%s/%s/hang/watchdog" % (PID, h.get("at", {}).get("inst", "?")), "the harness stopped making progress (deadlock in code under test): %s" % hang,
                      {"component": "wakers", "hang": h})
        return
    insts = json.loads(vlib.vhx("vh-wakers", ["list"]).stdout)
    empty = [i["name"] for i in insts if stats["kept"].get(i["name"], 0) == 0]
    if empty:
        raise vlib.ToolError("vacuity: no call sequence was applicable to %s" % empty)
    rep.cov["parts"]["instances"] = {i["name"]: {"classes": i["classes"], "binds": i["binds"], "sequences": stats["kept"].get(i["name"], 0),
                                                 "not_applicable": stats["dropped"].get(i["name"], 0)} for i in insts}
    # 3. TLC validates every recorded run against the monitor
    r = vlib.validate_traces(PID, "Trace_Wakers", TRACE_CFG, trace, constants=CONSTS)
    rep.add_traces("callorders", r["runs"], sleeping_runs(trace), r["events"])
    with open(trace) as f:
        rep.sample({"part": "callorders", "first_events": [json.loads(x) for _, x in zip(range(7), f)]})
    for rej in r["rejected"]:
        sg, what = signature(PID, "Wakers", rej)
        rep.violation(sg, what, {"component": "Wakers", "module": "Trace_Wakers", "rejected_at": rej["at"], "reason": rej["reason"], "trace": rej["run"]})
    rep.cov["rule"] = ("every call order (to the class depth) of 1-2 waiting tasks (poll / check / wait / re-poll / drop) and notifiers (set, flag;notify, touch, "
                       "close) enumerated by TLC and executed on each real waiter/notifier object with one counting Waker per task; TLC validates each "
                       "recorded call (result vs abstract condition, wake counters vs NoLostWakeup / CloseWakesAll). distinct_nontrivial = distinct (instance, run) pairs in "
                       "which at least one poll/wait returned Pending (a task actually went to sleep).")
    rep.cov["exhaustive"] = True
    rep.assumptions += [
        "single-consumer objects (AsyncDeque, KeysState, Receiving, DatagramReader, stream Reader/Writer, crypto stream, CidCell, AntiAmplifier, one SendWaker "
        "per path) are exercised with one waiting task: their documented contract is that a second task replaces (or panics on) the first; Parameters, "
        "LocalStreamIds and ArcSendWakers are exercised with two tasks",
        "interleavings are at the granularity of public calls; a call with two critical sections (SendBuffer::write) is split at a cfg(gmquic_verif) sync point",
        "wake-ups issued when the object itself is dropped at the end of a run are not observed",
        "every poll / wait hands the object a fresh waker generation and only a wake of the task's latest generation counts (stale generations are recorded "
        "as `stale`, spurious); AsyncDeque, RecvBuffer, ArcKeys / ArcZeroRttKeys / ArcOneRttKeys and the crypto stream reader / writer keep one generation "
        "per task because they panic / assert by design when polled with a different waker while one is registered",
    ]


def replay(path):
    v = json.load(open(path))
    wd = vlib.workdir(PID)
    run_ = v["payload"]["trace"]
    inst, cls = run_[0]["inst"], run_[0]["class"]
    ops = [cls]
    for e in run_[1:]:
        k = e["ev"]
        if k in ("poll", "wait", "drop"):
            ops.append([k, e["w"]])
        elif k == "check":
            ops.append([k, e["w"], e["s"]])
        elif k in ("flag", "notify"):
            ops.append([k, e["s"]])
        elif k in ("set", "touch", "close"):
            ops.append([k])
        elif k in ("stored", "notified", "ndone"):
            if e.get("op"):      # the first sync point of a hooked notifier call carries "nbegin", its return "nend"
                ops.append([e["op"]])
        elif k == "panic":
            ops.append(e["op"])
    beh, trace = os.path.join(wd, "replay_beh.ndjson"), os.path.join(wd, "replay_trace.ndjson")
    open(beh, "w").write(json.dumps(ops) + "\n")
    stats, hang = replay_behaviours(beh, trace, only=inst)
    if hang:
        print("  reproduced: hang", hang)
        print("VIOLATION property=%s replay=%s" % (PID, path))
        return 1
    r = vlib.validate_traces(PID, "Trace_Wakers", TRACE_CFG, trace, nchunks=1, constants=CONSTS)
    if r["rejected"]:
        print("  reproduced:", *signature(PID, "Wakers", r["rejected"][0]))
        print("VIOLATION property=%s replay=%s" % (PID, path))
        return 1
    print("not reproduced on the current tree")
    return 0
