"""Shared pieces of the per-property check scripts."""
import json, os
import vlib

GEN_CFG = "INIT GenInit\nNEXT GenNext\nINVARIANT Emit\nCHECK_DEADLOCK FALSE\n"


def trace_cfg(invs=("Inv",), props=()):
    s = "INIT TraceInit\nNEXT TraceNext\n"
    for i in invs:
        s += "INVARIANT %s\n" % i
    for p in props:
        s += "PROPERTY %s\n" % p
    return s + "POSTCONDITION TraceAccepted\nCHECK_DEADLOCK FALSE\n"


def mc_cfg(invs=("Inv",), props=(), view=True, spec=None):
    s = ("SPECIFICATION %s\n" % spec) if spec else "INIT Init\nNEXT MCNext\n"
    if view:
        s += "VIEW View\n"
    for i in invs:
        s += "INVARIANT %s\n" % i
    for p in props:
        s += "PROPERTY %s\n" % p
    return s + "CHECK_DEADLOCK FALSE\n"


def signature(pid, comp, rej):
    run, at = rej["run"], rej["at"]
    ev = run[at - 1] if 0 < at <= len(run) else {"ev": "eof"}
    if ev.get("ev") == "panic":
        op = ev.get("op")
        opn = op[0] if isinstance(op, list) and op else str(op)
        return "%s/%s/panic/%s" % (pid, comp, opn), "panic in %s on %s: %s" % (comp, json.dumps(op), ev.get("msg", "")[:240])
    return "%s/%s/%s/%s" % (pid, comp, ev.get("ev"), rej["reason"].split()[0]), \
        "event %d (%s) of the recorded run is not a behaviour of the specification: %s" % (at, json.dumps(ev)[:400], rej["reason"])


def count_nontrivial(tracefile, is_hit):
    """number of distinct runs (by content) for which is_hit(line) is true for some line."""
    seen, cur, hit = set(), [], False
    with open(tracefile) as f:
        for line in f:
            if '"ev":"reset"' in line:
                if cur and hit:
                    seen.add(hash(tuple(cur)))
                cur, hit = [], False
            else:
                cur.append(line)
                if not hit and is_hit(line):
                    hit = True
    if cur and hit:
        seen.add(hash(tuple(cur)))
    return len(seen)


def validate(rep, pid, comp, module, cfg, trace, part, is_hit, sig=None, constants=None):
    r = vlib.validate_traces(pid, module, cfg, trace, constants=constants)
    rep.add_traces(part, r["runs"], count_nontrivial(trace, is_hit), r["events"])
    with open(trace) as f:
        lines = [l for _, l in zip(range(7), f)]
    rep.sample({"part": part, "first_events": [json.loads(x) for x in lines]})
    for rej in r["rejected"]:
        s, what = (sig or signature)(pid, comp, rej)
        rep.violation(s, what, {"component": comp, "module": module, "rejected_at": rej["at"], "reason": rej["reason"], "trace": rej["run"]})
    return r


def gen_replay_validate(rep, pid, comp, gen_module, gen_consts, vh_cmd, trace_module, tcfg, part, is_hit, sig=None, extra_vh=(), trace_consts=None):
    wd = vlib.workdir(pid)
    beh = os.path.join(wd, "beh_%s.ndjson" % part.replace("/", "_"))
    trace = os.path.join(wd, "trace_%s.ndjson" % part.replace("/", "_"))
    g = vlib.tlc_gen(pid, gen_module, GEN_CFG, gen_consts, beh)
    rep.add_mc("%s/%s" % (gen_module, part), g)
    vlib.vh([vh_cmd, beh, trace] + list(extra_vh))
    return validate(rep, pid, comp, trace_module, tcfg, trace, part, is_hit, sig, constants=trace_consts)


def generic_replay(pid, comp, vh_cmd, trace_module, tcfg, path, to_ops, extra_vh=(), trace_consts=None):
    """Re-execute a stored violation: payload.trace is the recorded run; to_ops turns it back into inputs."""
    v = json.load(open(path))
    wd = vlib.workdir(pid)
    ops = to_ops(v["payload"]["trace"])
    beh, trace = os.path.join(wd, "replay_beh.ndjson"), os.path.join(wd, "replay_trace.ndjson")
    open(beh, "w").write(json.dumps(ops) + "\n")
    vlib.vh([vh_cmd, beh, trace] + list(extra_vh))
    r = vlib.validate_traces(pid, trace_module, tcfg, trace, nchunks=1, constants=trace_consts)
    if r["rejected"]:
        print("  reproduced:", *signature(pid, comp, r["rejected"][0]))
        print("VIOLATION property=%s replay=%s" % (pid, path))
        return 1
    print("not reproduced on the current tree")
    return 0
