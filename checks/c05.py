"""C05 — every encodable value decodes back to itself, in the size it declared.
spec: Wire.tla (varints, frames), WireHdr.tla (headers), WireParams.tla (transport parameters), WireVals.tla (the enumerated
values); MC_Wire checks the reference codec on itself, Gen_Wire emits the values, vh-wire encodes / decodes them with the real
codecs, Trace_Wire judges every recorded event against the reference codec (bytes, announced size, decode result)."""
import json, os
import vlib
from checks import wire_common as wc

BINS = wc.BINS
FRAME_KINDS = 27    # distinct TypeName values: 20 RFC 9000 kinds (CONNECTION_CLOSE counted twice) + DATAGRAM + 5 extension frames


def hit(line):
    # a run is non-trivial when something was encoded to more than one byte and decoded again
    return ('"ev":"rdec"' in line or '"ev":"hdec"' in line or '"ev":"pdec"' in line or '"ev":"prim"' in line) and '"ok":true' in line


def coverage(vals):
    kinds, types, hdr, prim, roles = set(), set(), set(), set(), set()
    n = 0
    with open(vals) as f:
        for line in f:
            v = json.loads(line)
            n += 1
            if v["c"] == "frame":
                kinds.add(v["kind"]); types.add(v["t"])
            elif v["c"] == "hdr":
                hdr.add(v["h"]["k"])
            elif v["c"] == "prim":
                prim.add(v["p"])
            else:
                roles.add(v["role"])
    return n, kinds, types, hdr, prim, roles


def run(tier, rep):
    wd = vlib.workdir("C05")
    quick = tier == "quick"
    dense = "FALSE" if quick else "TRUE"
    st = wc.mc("C05", "MC_Wire", {"Large": 1200, "Dense": dense, "L": 1, "Part": '"c05"'})
    rep.add_mc("MC_Wire/values", st)
    if st["depth"] != 2 or st["distinct"] < 3000:
        raise vlib.ToolError("vacuity: MC_Wire did not reach the values")
    for large in ([1200] if quick else [1200, 16384]):
        vals = os.path.join(wd, "vals_%d.ndjson" % large)
        trace = os.path.join(wd, "trace_%d.ndjson" % large)
        g = vlib.tlc_gen("C05", "Gen_Wire", wc.gen_cfg("EmitVals"), {"Large": large, "Dense": dense, "L": 1, "Quick": "TRUE"}, vals, workers=1)
        rep.add_mc("Gen_Wire/values/%d" % large, g)
        n, kinds, types, hdr, prim, roles = coverage(vals)
        if len(types) != 40 or len(kinds) != FRAME_KINDS or hdr != {"vn", "retry", "initial", "zero_rtt", "handshake", "one_rtt"} \
                or len(prim) != 10 or roles != {"client", "server", "remembered"}:
            raise vlib.ToolError("vacuity: the generated values do not cover every frame type / header kind / codec / role: "
                                 "%d types %d kinds %s %s %s" % (len(types), len(kinds), sorted(hdr), sorted(prim), sorted(roles)))
        wc.validate("C05", rep, "values/%d" % large, "c05", vals, trace, hit)
        rep.cov["parts"]["values/%d" % large].update({"values": n, "frame_types": len(types), "frame_kinds": len(kinds)})
    rep.cov["rule"] = ("abstract values enumerated by TLC from WireVals.tla: all 40 frame type codes (28 kinds incl. every ACK/STREAM/MAX_STREAMS/"
                       "STREAMS_BLOCKED/CONNECTION_CLOSE/DATAGRAM/ADD_ADDRESS/PUNCH_ME_NOW flag variant) with the product of the 8 boundary "
                       "varints for frames of <= 3 varint fields (quick tier: all pairs for 3 fields; thorough: full product), one-factor-at-a-time + diagonal for ACK / CONNECTION_CLOSE / ADD_ADDRESS / STREAM "
                       "with large data, byte fields of 0/1/63/64/Large bytes; 6 header kinds x cid lengths 0/1/8/20 x token lengths; 10 primitive "
                       "codecs; transport-parameter sets per role (each id alone at every boundary, all ids, all but one).  MC_Wire checks "
                       "Decode(Encode(v)) = v, consumed = written, Len(Encode(v)) = Size(v) <= MaxSize(v) on the spec; every value is then built, "
                       "encoded and decoded by the real code and each recorded event judged by TLC: real bytes = spec bytes, announced size = "
                       "bytes written <= announced max, a frame admitted by Package::dump's size rule fits, decode (every permitted packet type) = "
                       "original value and consumes everything.  distinct_nontrivial = distinct values that were decoded successfully.")
    rep.cov["exhaustive"] = True
    rep.assumptions += ["CONNECTION_CLOSE reason phrases are shorter than 16 KiB (the code documents this bound for max_encoding_size)",
                        "extension-frame sequence numbers fit u32 (their constructors take u32)",
                        "the order of transport parameters on the wire is unspecified (HashMap iteration); only the multiset of entries is compared"]


def replay(path):
    return wc.replay("C05", path)
