"""Received-journal part of C10 (ACK generation is truthful, numbers accepted once)."""
import os
import vlib
from checks import common

PROPS = ("AckTruthful", "AckRefusedOnlyWhenNoSpace", "DecodeTruthful")
MC = common.mc_cfg(props=PROPS)
TR = common.trace_cfg(props=PROPS)


def hit(line):
    return '"ev":"genack"' in line and '"ok":true' in line and '],[' in line   # an ACK with at least two ranges


def to_ops(trace):
    ops = []
    for e in trace[1:]:
        k = e["ev"]
        if k == "decode": ops.append(["d", e["pn"]])
        elif k == "rcvd": ops.append(["r", e["pn"], e["el"]])
        elif k == "genack": ops.append(["g", e["k"], e["L"], e["cap"]])
        elif k == "onack": ops.append(["a", e["acked"]])
        elif k == "tick": ops.append(["t", e["d"]])
        elif k == "panic": ops.append(e["op"])
    return ops


def run(pid, tier, rep):
    quick = tier == "quick"
    wd = vlib.workdir(pid)
    st = vlib.tlc_mc(pid, "MC_RcvdJournal", MC,
                     {"MaxPn": 3, "MaxNow": 4, "Caps": "{5, 7}" if quick else "{5, 6, 7, 9}", "PktNos": "{0}" if quick else "{0, 1}"},
                     need_actions=["Decode", "OnRcvd", "GenAck", "OnAck", "Tick"], timeout=3000)
    rep.add_mc("MC_RcvdJournal", st)
    common.gen_replay_validate(rep, pid, "RcvdJournal", "Gen_RcvdJournal",
                               {"MaxPn": 3, "Caps": "{4, 5, 7}" if quick else "{4, 5, 6, 7, 8, 9}", "PktNos": "{0, 1}", "Ticks": "{4}", "Depth": 4},
                               "rcvdjournal-replay", "Trace_RcvdJournal", TR, "rcvdjournal/allpaths", hit)
    beh = os.path.join(wd, "beh_rcvd_random.ndjson")
    trace = os.path.join(wd, "trace_rcvd_random.ndjson")
    vlib.vh(["rcvdjournal-random", vlib.seed(), 600 if quick else 6000, beh])
    vlib.vh(["rcvdjournal-replay", beh, trace])
    common.validate(rep, pid, "RcvdJournal", "Trace_RcvdJournal", TR, trace, "rcvdjournal/random", hit)


def replay(pid, path):
    return common.generic_replay(pid, "RcvdJournal", "rcvdjournal-replay", "Trace_RcvdJournal", TR, path, to_ops)
