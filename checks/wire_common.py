"""Shared pieces of C05 / C03 (spec/Wire*.tla, harness vh-wire)."""
import json, os, re, subprocess
import vlib

BINS = ["vh-wire"]
TRACE_CFG = "INIT TraceInit\nNEXT TraceNext\nINVARIANT Inv\nPOSTCONDITION TraceAccepted\nCHECK_DEADLOCK FALSE\n"
MC_CFG = "INIT Init\nNEXT MCNext\nINVARIANT Inv\nCHECK_DEADLOCK FALSE\n"


def gen_cfg(inv):
    return "INIT GenInit\nNEXT GenNext\nINVARIANT %s\nCHECK_DEADLOCK FALSE\n" % inv


def slug(msg, n=8):
    return "_".join([w for w in re.split(r"[^A-Za-z0-9]+", msg or "") if w][:n])


def kind_of(run):
    """component:kind of the value / input a run is about"""
    for e in run:
        ev = e.get("ev")
        if ev == "enc":
            return "frame:%s" % e.get("kind")
        if ev == "henc":
            return "hdr:%s" % e["h"]["k"]
        if ev == "prim":
            return "prim:%s" % e["p"]
        if ev in ("penc", "params"):
            return "params:%s" % e["role"]
        if ev == "payload":
            return "payload"
        if ev == "dgram":
            return "dgram"
        if ev == "panic":
            return str(e.get("c"))
    return str(run[0].get("c")) if run else "?"


def signature(pid, rej):
    """(signature, human text).  The signature names component:kind, the violated statement and a detail that
    separates different causes of the same statement (error text of a rejected decode, size difference, panic text)."""
    run, at = rej["run"], rej["at"]
    ev = run[at - 1] if 0 < at <= len(run) else {"ev": "eof"}
    name = rej["reason"].split()[0]
    k = kind_of(run)
    if ev.get("ev") == "panic":
        return ("%s/Wire/%s/panic/%s/%s" % (pid, k, ev["op"][0], ev.get("slug") or slug(ev.get("msg"))),
                "panic in %s on %s: %s" % (ev["op"][0], json.dumps(ev.get("in"))[:300], (ev.get("msg") or "")[:300]))
    detail = ""
    if name in ("RoundTrip", "DecOracle") and ev.get("ok") is False:
        detail = "@" + (slug(ev.get("err"), 12) or "rejected")
    elif name == "EncSize" and "enc_size" in ev:
        detail = "@written-announced=%d" % (len(ev["bytes"]) - ev["enc_size"] - ev.get("data_len", 0))
    elif name == "EncMax" and "enc_size" in ev:
        detail = "@announced-max=%d" % (ev["enc_size"] - ev["max_size"])
    elif name == "ErrClass":
        items = ev.get("items") or [ev]
        bad = [i for i in items if not i.get("ok", True)]
        detail = "@" + (bad[-1].get("class", "?") + ":" + slug(bad[-1].get("err"), 4) if bad else "?")
    elif name == "Accept":
        items = ev.get("items")
        if items is not None:
            bad = [i for i in items if not i.get("ok", True)]
            detail = "@" + ("rejected:" + slug(bad[-1].get("err"), 6) if bad else "accepted")
        else:
            detail = "@" + ("accepted" if ev.get("ok") else "rejected:" + slug(ev.get("err"), 6))
    short = {k2: (v if not isinstance(v, list) or len(v) <= 48 else "[%d items]" % len(v)) for k2, v in ev.items()}
    return ("%s/Wire/%s/%s%s" % (pid, k, name, detail),
            "%s does not hold for the recorded %s event %s" % (name, ev.get("ev"), json.dumps(short)[:500]))


def run_harness(pid, rep, mode, inputs, trace, extra=()):
    """run vh-wire; exit 3 = watchdog (a decoder did not return)"""
    p = vlib.vhx("vh-wire", [mode, inputs, trace] + list(extra), check=False)
    if p.returncode == 3:
        cur = open(trace + ".hang").read() if os.path.exists(trace + ".hang") else ""
        rep.violation("%s/Wire/hang" % pid, "decoder did not return within the watchdog limit on %s" % cur[:400],
                      {"component": "wire", "mode": mode, "input": cur})
        raise vlib.ToolError("vh-wire hung (reported as violation); trace incomplete")
    if p.returncode != 0:
        raise vlib.ToolError("vh-wire %s exited %d: %s" % (mode, p.returncode, (p.stderr or "")[-800:]))


def input_line(inputs, idx):
    with open(inputs) as f:
        for i, line in enumerate(f):
            if i == idx:
                return json.loads(line)
    return None


def validate(pid, rep, part, mode, inputs, trace, is_hit, extra=()):
    run_harness(pid, rep, mode, inputs, trace, extra)
    r = vlib.validate_traces(pid, "Trace_Wire", TRACE_CFG, trace, max_violations=1 << 30)
    nontrivial = count_hits(trace, is_hit)
    rep.add_traces(part, r["runs"], nontrivial, r["events"])
    with open(trace) as f:
        lines = [json.loads(l) for _, l in zip(range(4), f)]
    for e in lines:
        for k in list(e):
            if isinstance(e[k], list) and len(e[k]) > 40:
                e[k] = "[%d items]" % len(e[k])
    rep.sample({"part": part, "first_events": lines})
    for rej in r["rejected"]:
        sig, what = signature(pid, rej)
        inp = input_line(inputs, rej["run"][0].get("id", -1)) if rej["run"] else None
        rep.violation(sig, what, {"component": "wire", "mode": mode, "extra": list(extra), "input": inp,
                                  "rejected_at": rej["at"], "reason": rej["reason"], "trace": rej["run"]})
    return r


def count_hits(trace, is_hit):
    """distinct runs (by content) with at least one line for which is_hit holds"""
    seen, cur, hit = set(), [], False
    with open(trace) as f:
        for line in f:
            if '"ev":"reset"' in line:
                if cur and hit:
                    seen.add(hash(tuple(cur)))
                cur, hit = [], False
            else:
                cur.append(line)
                if not hit and is_hit(line):
                    hit = True
    if cur and hit:
        seen.add(hash(tuple(cur)))
    return len(seen)


def replay(pid, path):
    """re-execute the stored input against the current tree and re-validate the recorded events"""
    v = json.load(open(path))
    pl = v["payload"]
    wd = vlib.workdir(pid)
    inputs, trace = os.path.join(wd, "replay_in.ndjson"), os.path.join(wd, "replay_trace.ndjson")
    if not pl.get("input"):
        print("the violation carries no input (hang or tool problem)")
        return 2
    inp = json.loads(pl["input"]) if isinstance(pl["input"], str) else pl["input"]
    open(inputs, "w").write(json.dumps(inp) + "\n")
    p = vlib.vhx("vh-wire", [pl["mode"], inputs, trace] + pl.get("extra", []), check=False)
    if p.returncode == 3:
        print("  reproduced: the decoder did not return")
        print("VIOLATION property=%s replay=%s" % (pid, path))
        return 1
    r = vlib.validate_traces(pid, "Trace_Wire", TRACE_CFG, trace, nchunks=1, max_violations=1 << 30)
    sigs = [signature(pid, rej) for rej in r["rejected"]]
    for s, what in sigs:
        print("  reproduced: %s — %s" % (s, what))
    if any(s == v["signature"] for s, _ in sigs) or (sigs and not v.get("signature")):
        print("VIOLATION property=%s replay=%s" % (pid, path))
        return 1
    if sigs:
        print("a different violation than the stored one was observed")
        print("VIOLATION property=%s replay=%s" % (pid, path))
        return 1
    print("not reproduced on the current tree")
    return 0
