"""Shared pieces of C05 / C03 (spec/Wire*.tla, harness vh-wire)."""
import json, os, re, subprocess
import vlib

BINS = ["vh-wire"]
TRACE_CFG = "INIT TraceInit\nNEXT TraceNext\nINVARIANT Inv\nPOSTCONDITION TraceAccepted\nCHECK_DEADLOCK FALSE\n"
MC_CFG = "INIT Init\nNEXT MCNext\nINVARIANT Inv\nCHECK_DEADLOCK FALSE\n"


def gen_cfg(inv):
    return "INIT GenInit\nNEXT GenNext\nINVARIANT %s\nCHECK_DEADLOCK FALSE\n" % inv


def mc(pid, module, constants, workers=None, timeout=1500):
    """Model check of the reference codec on itself.  vlib.tlc_mc is not used because `-coverage` instruments every
    evaluation of the (deeply recursive) codec operators and makes this model ~50x slower; vacuity is excluded by
    the caller from the number of states and the depth (one state per value)."""
    wd = vlib.workdir(pid)
    cfg = os.path.join(wd, module + ".cfg")
    vlib.write_cfg(cfg, MC_CFG, constants)
    rc, out, wall = vlib._java(module + ".tla", cfg, os.path.join(wd, "meta_" + module), workers or vlib.NCPU, timeout=timeout, xmx=vlib.XMX)
    with open(os.path.join(wd, module + ".mc.log"), "w") as f:
        f.write(out)
    st = vlib.parse_stats(out)
    st["wall_s"] = round(wall, 1)
    if rc == -9:
        raise vlib.ToolError("TLC timed out on %s" % module)
    if "Model checking completed. No error has been found." not in out:
        import sys
        sys.stdout.write("\n".join(l for l in out.splitlines() if not re.match(r"^\s*\|*line ", l))[-4000:] + "\n")
        raise vlib.ToolError("TLC reports an error in the model %s itself (spec defect, not an implementation violation)" % module)
    vlib.log("TLC %s: %d generated, %d distinct, depth %d, %.1fs" % (module, st["generated"], st["distinct"], st["depth"], wall))
    return st


def slug(msg, n=8):
    return "_".join([w for w in re.split(r"[^A-Za-z0-9]+", msg or "") if w][:n])


def kind_of(run, ev=None):
    """component:kind of the value / input a run is about (taken from the offending event when it says so itself)"""
    if ev is not None:
        if ev.get("ev") == "panic":
            role = (ev.get("in") or {}).get("role") if isinstance(ev.get("in"), dict) else None
            return "%s%s" % (ev.get("c"), (":" + role) if role else "")
        if ev.get("ev") in ("params", "penc", "pdec"):
            return "params:%s" % ev["role"]
    for e in run:
        ev = e.get("ev")
        if ev == "enc":
            return "frame:%s" % e.get("kind")
        if ev == "henc":
            return "hdr:%s" % e["h"]["k"]
        if ev == "prim":
            return "prim:%s" % e["p"]
        if ev in ("penc", "params"):
            return "params:%s" % e["role"]
        if ev == "payload":
            return "payload"
        if ev == "dgram":
            return "dgram"
        if ev == "panic":
            return str(e.get("c"))
    return str(run[0].get("c")) if run else "?"


def signature(pid, rej):
    """(signature, human text).  The signature names component:kind, the violated statement and a detail that
    separates different causes of the same statement (error text of a rejected decode, size difference, panic text)."""
    run, at = rej["run"], rej["at"]
    ev = run[at - 1] if 0 < at <= len(run) else {"ev": "eof"}
    name = rej["reason"].split()[0]
    k = kind_of(run, ev)
    if ev.get("ev") == "panic":
        return ("%s/Wire/%s/panic/%s/%s" % (pid, k, ev["op"][0], ev.get("slug") or slug(ev.get("msg"))),
                "panic in %s on %s: %s" % (ev["op"][0], json.dumps(ev.get("in"))[:300], (ev.get("msg") or "")[:300]))
    detail = ""
    if name in ("RoundTrip", "DecOracle") and ev.get("ok") is False:
        detail = "@" + (slug(ev.get("err"), 12) or "rejected")
    elif name == "EncSize" and "enc_size" in ev:
        detail = "@written-announced=%d" % (len(ev["bytes"]) - ev["enc_size"] - ev.get("data_len", 0))
    elif name == "EncMax" and "enc_size" in ev:
        detail = "@announced-max=%d" % (ev["enc_size"] - ev["max_size"])
    elif name == "ErrClass":
        items = ev.get("items") or [ev]
        bad = [i for i in items if not i.get("ok", True)]
        detail = "@" + (bad[-1].get("class", "?") + ":" + slug(bad[-1].get("err"), 4) if bad else "?")
    elif name == "Accept":
        items = ev.get("items")
        if items is not None:
            bad = [i for i in items if not i.get("ok", True)]
            detail = "@" + ("rejected:" + slug(bad[-1].get("err"), 12) if bad else "accepted")
        else:
            detail = "@" + ("accepted" if ev.get("ok") else "rejected:" + slug(ev.get("err"), 6))
    short = {k2: (v if not isinstance(v, list) or len(v) <= 48 else "[%d items]" % len(v)) for k2, v in ev.items()}
    return ("%s/Wire/%s/%s%s" % (pid, k, name, detail),
            "%s does not hold for the recorded %s event %s" % (name, ev.get("ev"), json.dumps(short)[:500]))


def run_harness(pid, rep, mode, inputs, trace, extra=()):
    """run vh-wire; exit 3 = watchdog (a decoder did not return)"""
    p = vlib.vhx("vh-wire", [mode, inputs, trace] + list(extra), check=False)
    if p.returncode == 3:
        cur = open(trace + ".hang").read() if os.path.exists(trace + ".hang") else ""
        rep.violation("%s/Wire/hang" % pid, "decoder did not return within the watchdog limit on %s" % cur[:400],
                      {"component": "wire", "mode": mode, "input": cur})
        raise vlib.StopWithViolations("vh-wire hung (reported as violation); trace incomplete")
    if p.returncode < 0 or p.returncode == 101:
        # the process was killed by a signal (abort on allocation failure, stack overflow) or a panic escaped every guard:
        # the code under test took the harness down while decoding untrusted bytes
        cur = open(trace + ".hang").read() if os.path.exists(trace + ".hang") else ""
        rep.violation("%s/Wire/died/%s" % (pid, mode), "the decoder killed the process (exit %d) %s: %s" % (p.returncode, cur[:300], (p.stderr or "")[-400:]),
                      {"component": "wire", "mode": mode, "input": cur, "stderr": (p.stderr or "")[-1500:]})
        raise vlib.StopWithViolations("vh-wire died with exit %d (reported as violation)" % p.returncode)
    if p.returncode != 0:
        raise vlib.ToolError("vh-wire %s exited %d: %s" % (mode, p.returncode, (p.stderr or "")[-800:]))


_LINES = {}


def input_line(inputs, idx):
    if inputs not in _LINES:
        with open(inputs) as f:
            _LINES.clear()
            _LINES[inputs] = f.readlines()
    ls = _LINES[inputs]
    return json.loads(ls[idx]) if 0 <= idx < len(ls) else None


def validate_soft(pid, trace, nchunks=None):
    """Trace_Wire has only soft statements, so one TLC pass per chunk judges every event.  (vlib.validate_traces keeps at most
    200 soft violations per chunk, which would let many hits of a known finding hide an unknown violation.)"""
    from concurrent.futures import ThreadPoolExecutor
    import shutil, time
    wd = vlib.workdir(pid)
    cfg = os.path.join(wd, "Trace_Wire.cfg")
    vlib.write_cfg(cfg, TRACE_CFG)
    cdir = os.path.join(wd, "chunks_Trace_Wire_" + os.path.basename(trace))
    shutil.rmtree(cdir, ignore_errors=True)
    chunks, nruns, nevents = vlib.split_runs(trace, nchunks or max(vlib.TRACE_CHUNKS, min(vlib.NCPU, 8)), cdir)
    if nruns == 0:
        raise vlib.ToolError("trace file %s contains no runs" % trace)
    t = time.time()

    def work(item):
        idx, (path, runs) = item
        rc, out = vlib._validate_file(pid, "Trace_Wire", cfg, path, idx, 3000)
        if rc == -9:
            raise vlib.ToolError("trace validation timed out")
        d = vlib._diagnose(out, sum(len(r) for r in runs))
        if d is not None:
            raise vlib.ToolError("Trace_Wire could not evaluate a recorded event (line %s of %s): %s" % (d[0], path, d[1][-1200:]))
        return vlib._soft(out, runs)

    with ThreadPoolExecutor(max_workers=vlib.NCPU) as ex:
        rejected = [x for part in ex.map(work, enumerate(chunks)) for x in part]
    shutil.rmtree(cdir, ignore_errors=True)
    vlib.log("Trace validation Trace_Wire: %d runs, %d events, %d rejected, %.1fs" % (nruns, nevents, len(rejected), time.time() - t))
    return {"runs": nruns, "events": nevents, "rejected": rejected, "wall_s": round(time.time() - t, 1)}


def validate(pid, rep, part, mode, inputs, trace, is_hit, extra=()):
    run_harness(pid, rep, mode, inputs, trace, extra)
    r = validate_soft(pid, trace)
    nontrivial = count_hits(trace, is_hit)
    rep.add_traces(part, r["runs"], nontrivial, r["events"])
    with open(trace) as f:
        lines = [json.loads(l) for _, l in zip(range(4), f)]
    for e in lines:
        for k in list(e):
            if isinstance(e[k], list) and len(e[k]) > 40:
                e[k] = "[%d items]" % len(e[k])
    rep.sample({"part": part, "first_events": lines})
    seen = {}
    for rej in r["rejected"]:
        sig, what = signature(pid, rej)
        inp = input_line(inputs, rej["run"][0].get("id", -1)) if rej["run"] else None
        seen[sig] = seen.get(sig, 0) + 1
        keep = seen[sig] <= 3      # every occurrence is counted; the recorded run is stored for the first three of a signature
        rep.violation(sig, what, {"component": "wire", "mode": mode, "extra": list(extra), "input": inp if keep else None,
                                  "rejected_at": rej["at"], "reason": rej["reason"], "trace": rej["run"] if keep else []})
    return r


def count_hits(trace, is_hit):
    """distinct runs (by content) with at least one line for which is_hit holds"""
    seen, cur, hit = set(), [], False
    with open(trace) as f:
        for line in f:
            if '"ev":"reset"' in line:
                if cur and hit:
                    seen.add(hash(tuple(cur)))
                cur, hit = [], False
            else:
                cur.append(line)
                if not hit and is_hit(line):
                    hit = True
    if cur and hit:
        seen.add(hash(tuple(cur)))
    return len(seen)


def replay(pid, path):
    """re-execute the stored input against the current tree and re-validate the recorded events"""
    v = json.load(open(path))
    pl = v["payload"]
    wd = vlib.workdir(pid)
    inputs, trace = os.path.join(wd, "replay_in.ndjson"), os.path.join(wd, "replay_trace.ndjson")
    if not pl.get("input"):
        print("the violation carries no input (hang or tool problem)")
        return 2
    inp = json.loads(pl["input"]) if isinstance(pl["input"], str) else pl["input"]
    open(inputs, "w").write(json.dumps(inp) + "\n")
    p = vlib.vhx("vh-wire", [pl["mode"], inputs, trace] + pl.get("extra", []), check=False)
    if p.returncode == 3:
        print("  reproduced: the decoder did not return")
        print("VIOLATION property=%s replay=%s" % (pid, path))
        return 1
    r = validate_soft(pid, trace, nchunks=1)
    sigs = [signature(pid, rej) for rej in r["rejected"]]
    for s, what in sigs:
        print("  reproduced: %s — %s" % (s, what))
    if any(s == v["signature"] for s, _ in sigs) or (sigs and not v.get("signature")):
        print("VIOLATION property=%s replay=%s" % (pid, path))
        return 1
    if sigs:
        print("a different violation than the stored one was observed")
        print("VIOLATION property=%s replay=%s" % (pid, path))
        return 1
    print("not reproduced on the current tree")
    return 0
