"""C13 — loss detection and congestion control follow RFC 9002.
spec: Recovery.tla (ground truth + controller outcome; RFC 9002 appendix A/B as the design D_*),
MC_Recovery (design, bounded + liveness), Gen_Recovery (environment schedules), Trace_Recovery (real ArcCC)."""
import json, os
import vlib
from checks import common

BINS = ["vh-recovery"]
PID, COMP = "C13", "Recovery"

INVS = ["LossOnlyAfterLaterAck", "LossOnlyBeyondThreshold", "TimeThresholdIsNineEighths", "AckedNeverLost",
        "CwndAtLeastTwoDatagrams", "ShrinkOnlyOnLossOrEcn", "ShrinkAtMostOncePerRtt", "ShrinkOnceBurstLoss", "ShrinkOnceRecoveryCleared", "GrowOnlyOnAckOutsideRecovery",
        "BytesInFlightExact", "NoSendBeyondWindow", "GrantedSendWithinWindow",
        "TimerArmed", "ExpiredTimerActs", "PtoIntervalDoubles", "PtoBackoffNotReset", "AbandonOnlyAfterMaxPto"]
MC_SAFE = "INIT MCStart\nNEXT MCNext\nCONSTRAINT DepthBound\n" + "".join("INVARIANT %s\n" % i for i in INVS) + "CHECK_DEADLOCK FALSE\n"
MC_LIVE = "SPECIFICATION MCSpec\nPROPERTY EveryAckElicitingResolvedOrProbed\nCHECK_DEADLOCK FALSE\n"
GEN_CFG = "INIT GenInit\nNEXT GenNext\nINVARIANT Emit\nINVARIANT GenInv\nCHECK_DEADLOCK FALSE\n"
TRACE_CFG = common.trace_cfg(invs=("SoftInv",))

SMALL = {"Mtu": 2, "InitCwnd": 8, "InitRtt": 4, "Gran": 1, "MaxAckDelay": 2, "MaxPto": 2, "MaxClock": 400}
REAL = {"Mtu": 1200, "InitCwnd": 12000, "InitRtt": 33000, "Gran": 1000, "MaxAckDelay": 25000, "MaxPto": 6}


def mc_parts(quick):
    # cc: established connection, application space, every flag / size / delay / ECN choice
    cc = dict(SMALL, MaxPk=3, MaxTotal=3, Sizes="{1, 2}", Dts="{1, 5}", Delays="{0, 2}", Ces="{1}", SendSpaces="{3}",
              FlagSet="{1, 2, 3}", Established="TRUE", Horizon=12, MaxDepth=4 if quick else 6)
    # loss: established, full-size ack-eliciting packets only, deeper
    loss = dict(SMALL, MaxPk=4, MaxTotal=4, Sizes="{2}", Dts="{1, 5}", Delays="{0}", Ces="{}", SendSpaces="{3}",
                FlagSet="{1, 3}", Established="TRUE", Horizon=12, MaxDepth=5 if quick else 8)
    # hs: the three spaces from the start of the handshake, both roles, phases, discards
    hs = dict(SMALL, MaxPk=2, MaxTotal=3, Sizes="{2}", Dts="{2, 13}", Delays="{0}", Ces="{}", SendSpaces="{1, 2, 3}",
              FlagSet="{1, 3}", Established="FALSE", Horizon=14, MaxDepth=4 if quick else 7)
    live = dict(SMALL, MaxPk=2, MaxTotal=2, Sizes="{2}", Dts="{3}", Delays="{0}", Ces="{}", SendSpaces="{3}",
                FlagSet="{1}", Established="TRUE", Horizon=3 if quick else 6, MaxDepth=0)
    return [("cc", cc, MC_SAFE), ("loss", loss, MC_SAFE), ("hs", hs, MC_SAFE), ("live", live, MC_LIVE)]


def gen_parts(quick):
    base = dict(REAL, BurstMode="FALSE", Roles="{TRUE, FALSE}", Script="<- ScriptNone")
    allops = '{"send", "gsend", "quota", "ack", "acktop", "adv", "tick", "discard", "phase"}'
    est_loss = dict(base, Start='"est"', Roles="{FALSE}", Depth=5 if quick else 6, MaxPk=4, GSizes="{1200}", GDts="{10000}", GDelays="{0}",
                    GCes="{}", GSpaces="{3}", GFlagSet="{1}", Ops='{"send", "ack", "adv", "tick"}')
    est_cc = dict(base, Start='"est"', Roles="{TRUE}", Depth=7, Script="<- ScriptCc", MaxPk=3,
                  GSizes="{1200}", GDts="{10000, 60000}", GDelays="{8000}" if quick else "{0, 8000}", GCes="{1}", GSpaces="{3}", GFlagSet="{1, 2, 3}", Ops=allops)
    hs = dict(base, Start='"fresh"', Depth=6, Script="<- ScriptHs", MaxPk=2, GSizes="{1200}", GDts="{60000}" if quick else "{60000, 200000}",
              GDelays="{0}", GCes="{}", GSpaces="{1, 2, 3}", GFlagSet="{1}", Ops=allops)
    loss4 = dict(est_loss, Depth=7 if quick else 9, Script="<- ScriptLoss" if quick else "<- ScriptLoss2", Ops=allops)
    pto = dict(hs, Depth=8 if quick else 10, Script="<- ScriptPto" if quick else "<- ScriptPto2", GDts="{150000}" if quick else "{150000, 400000}")
    return [("allpaths/est-loss", est_loss, None), ("allpaths/est-loss4", loss4, None), ("allpaths/est-cc", est_cc, None),
            ("allpaths/handshake", hs, None), ("allpaths/pto", pto, None)]


def sim_parts(quick):
    base = dict(REAL, Roles="{TRUE, FALSE}", Script="<- ScriptNone", GSizes="{1200, 300}", GDts="{1000, 10000, 60000, 400000}", GDelays="{0, 8000, 40000}", GCes="{1, 3}",
                GSpaces="{1, 2, 3}", GFlagSet="{1, 2, 3}", MaxPk=40)
    deep_est = dict(base, Start='"est"', BurstMode="TRUE", Depth=60, GSpaces="{3}",
                    Ops='{"send", "gsend", "burst", "quota", "ack", "acktop", "adv", "tick"}')
    deep_hs = dict(base, Start='"fresh"', BurstMode="TRUE", Depth=40,
                   Ops='{"send", "gsend", "quota", "ack", "acktop", "adv", "tick", "discard", "phase"}')
    n = 80 if quick else 400
    return [("walks/est", deep_est, {"num": n, "depth": 70}), ("walks/handshake", deep_hs, {"num": n, "depth": 50})]


def thin(path, keep):
    """TLC's simulator evaluates the Emit invariant on every candidate successor of a walk's last step; keep a few per walk."""
    seen, out = {}, []
    with open(path) as f:
        for line in f:
            ops = json.loads(line)
            k = json.dumps(ops[:-1])
            seen[k] = seen.get(k, 0) + 1
            if seen[k] <= keep:
                out.append(line)
    with open(path, "w") as f:
        f.writelines(out)
    return len(out)


def is_hit(line):
    return '"ev":"ack"' in line or ('"lost":[' in line and '"lost":[[],[],[]]' not in line)


def to_ops(trace):
    ops = []
    for e in trace:
        k = e["ev"]
        if k == "reset": ops.append(["cfg", 1 if e["server"] else 0])
        elif k == "send": ops.append(["gsend", e["sp"]] if e.get("g") else ["send", e["sp"], e["sz"], int(e["ae"]), int(e["inf"])])
        elif k == "ack": ops.append(["ack", e["sp"], e["pns"], e["delay"], e["ce"]])
        elif k == "adv": ops.append(["adv", e["dt"]])
        elif k in ("tick", "quota"): ops.append([k])
        elif k == "discard": ops.append(["discard", e["sp"]])
        elif k == "phase": ops.append(["phase", e["what"]])
        elif k == "panic": ops.append(e["op"])
    return ops


def _drive_validate(rep, part, beh):
    wd = vlib.workdir(PID)
    trace = os.path.join(wd, "trace_%s.ndjson" % part.replace("/", "_"))
    vlib.vhx("vh-recovery", ["replay", beh, trace])
    return common.validate(rep, PID, COMP, "Trace_Recovery", TRACE_CFG, trace, part, is_hit, constants=REAL)


def run(tier, rep):
    quick = tier == "quick"
    wd = vlib.workdir(PID)
    for name, consts, cfg in mc_parts(quick):
        need = ["Send", "Ack", "Advance", "Tick"] + ([] if name == "live" else ["Quota"]) + (["Discard", "Phase"] if name == "hs" else [])
        st = vlib.tlc_mc(PID, "MC_Recovery", cfg, consts, need_actions=need)
        rep.add_mc("MC_Recovery/" + name, st)
    for part, consts, sim in gen_parts(quick) + sim_parts(quick):
        beh = os.path.join(wd, "beh_%s.ndjson" % part.replace("/", "_"))
        g = vlib.tlc_gen(PID, "Gen_Recovery", GEN_CFG, consts, beh, simulate=sim)
        if sim:
            g["behaviours"] = thin(beh, 3)
        rep.add_mc("Gen_Recovery/" + part, g)
        _drive_validate(rep, part, beh)
    # the recorded failing inputs of the findings (regression seeds), judged like every other schedule
    _drive_validate(rep, "scenarios", os.path.join(vlib.ROOT, "checks", "c13_scenarios.ndjson"))
    sigs = {}
    for sig, _, _ in rep.violations:
        sigs[sig] = sigs.get(sig, 0) + 1
    rep.cov["signatures"] = sigs
    for k in sorted(sigs):
        vlib.log("  %6d x %s" % (sigs[k], k))
    rep.cov["rule"] = ("environment schedules for one path's controller -- sends in three packet-number spaces (sizes, ack-eliciting / in-flight flags, "
                       "free or out of a granted quota, bursts), ACK frames (every non-empty subset of the sent packet numbers, delays, ECN-CE counts), "
                       "clock advances (fixed steps and exactly to / just past the design's deadline), ticks, quota requests, discards, handshake and "
                       "anti-amplification phases, both roles -- enumerated by TLC to the stated depth plus seeded deep random walks of the design; each "
                       "executed on the real ArcCC under tokio's paused clock; after every call the packets handed to Feedback::may_loss, the result "
                       "and ArcCC::verif_snapshot() are recorded and every step is judged by TLC against Recovery.tla. distinct_nontrivial = distinct "
                       "runs containing an ACK frame or a loss declaration.")
    rep.cov["exhaustive"] = True
    rep.assumptions += ["ACK frames acknowledge only packet numbers that were sent (validated by the packet spaces before the controller is called)",
                        "ack-eliciting packets are in flight (RFC 9002 section 2); packet numbers are allocated consecutively per space",
                        "max_ack_delay 25 ms, datagram size 1200 (MSS) constant during a run; one path",
                        "float-derived values (rtt estimate, loss delay, PTO durations) are taken from the snapshot; only their relations are checked",
                        "the design is model-checked for every schedule up to a bounded number of calls (MaxDepth) rather than to closure"]


def replay(path):
    v = json.load(open(path))
    wd = vlib.workdir(PID)
    beh, trace = os.path.join(wd, "replay_beh.ndjson"), os.path.join(wd, "replay_trace.ndjson")
    open(beh, "w").write(json.dumps(to_ops(v["payload"]["trace"])) + "\n")
    vlib.vhx("vh-recovery", ["replay", beh, trace])
    r = vlib.validate_traces(PID, "Trace_Recovery", TRACE_CFG, trace, nchunks=1, constants=REAL)
    want = v.get("signature")
    sigs = [common.signature(PID, COMP, rej) for rej in r["rejected"]]
    hit = [s for s in sigs if s[0] == want] or sigs
    if hit:
        print("  reproduced:", *hit[0])
        print("VIOLATION property=%s replay=%s" % (PID, path))
        return 1
    print("not reproduced on the current tree")
    return 0
