"""C14 — connection IDs are issued, used, retired and routed consistently.
specs: LocalCids.tla (issuing + shared router), RemoteCids.tla (peer's ids handed to paths)."""
import json, os
import vlib
from checks import common

L_PROPS = ("Consecutive",)
L_MC = common.mc_cfg(props=L_PROPS)
L_TR = common.trace_cfg(props=L_PROPS)
R_MC = common.mc_cfg(invs=("Inv", "ReadyAligned"))
# ActiveWithinLimit is checked on recorded traces only: the model follows the code, which does not satisfy it
R_TR = common.trace_cfg(invs=("Inv", "SoftActiveWithinLimit"))
LIMIT = 3


def l_hit(line):
    return '"ev":"retire"' in line and '"frames":[[' in line


def r_hit(line):
    return '"retired":[' in line and '"retired":[]' not in line


def l_ops(trace):
    ops = []
    for e in trace[1:]:
        k = e["ev"]
        if k in ("create", "drop"): ops.append([k, e["c"]])
        elif k == "setlimit": ops.append([k, e["c"], e["L"]])
        elif k == "retire": ops.append([k, e["c"], e["seq"]])
        elif k in ("claim", "unclaim"): ops.append([k, e["c"], e["s"]])
        elif k == "panic": ops.append(e["op"])
    return ops


def r_ops(trace):
    ops = []
    for e in trace[1:]:
        k = e["ev"]
        if k == "apply": ops.append([k])
        elif k in ("initial", "borrow", "release", "retirecell"): ops.append([k, e["c"]])
        elif k == "newcid": ops.append([k, e["seq"], e["rpt"]])
        elif k == "panic": ops.append(e["op"])
    return ops


def run(tier, rep):
    quick = tier == "quick"
    conns = '{"a", "b"}'
    st = vlib.tlc_mc("C14", "MC_LocalCids", L_MC,
                     {"Conns": conns, "Shared": "<- MCShared", "MaxSeq": 5 if quick else 6, "Limits": "{1, 2, 3}" if quick else "{1, 2, 3, 4}"},
                     need_actions=["Create", "SetLimit", "RecvRetire|Retire", "Drop", "Claim", "Unclaim"])
    rep.add_mc("MC_LocalCids", st)
    common.gen_replay_validate(rep, "C14", "LocalCids", "Gen_LocalCids",
                               {"Conns": conns, "Shared": "<- MCShared", "Limits": "{1, 3}", "MaxSeq": 7, "Depth": 6 if quick else 7},
                               "localcids-replay", "Trace_LocalCids", L_TR, "localcids/allpaths", l_hit,
                               trace_consts={"Conns": conns, "Shared": "<- MCShared"})
    st = vlib.tlc_mc("C14", "MC_RemoteCids", R_MC, {"Limit": LIMIT, "MaxSeq": 4 if quick else 5, "MaxCells": 2 if quick else 3},
                     need_actions=["ApplyDcid|Apply", "ApplyInitial|Initial", "RecvNewCid|NewCid", "Borrow", "Release", "RetireCell"])
    rep.add_mc("MC_RemoteCids", st)
    wd = vlib.workdir("C14")
    beh = os.path.join(wd, "beh_remote.ndjson")
    trace = os.path.join(wd, "trace_remote.ndjson")
    g = vlib.tlc_gen("C14", "Gen_RemoteCids", common.GEN_CFG,
                     {"Limit": LIMIT, "MaxSeq": 4, "MaxCells": 2, "Depth": 6 if quick else 7}, beh)
    rep.add_mc("Gen_RemoteCids", g)
    vlib.vh(["remotecids-replay", LIMIT, beh, trace])
    common.validate(rep, "C14", "RemoteCids", "Trace_RemoteCids", R_TR, trace, "remotecids/allpaths", r_hit,
                    constants={"Limit": LIMIT})
    rep.cov["rule"] = ("call sequences enumerated by TLC to the stated depth: (a) two connections on one real QuicRouter (create, peer limit, "
                       "RETIRE_CONNECTION_ID incl. duplicates/reordered/unissued, drop, shared-signpost claims) with a complete routing snapshot after "
                       "every call; (b) NEW_CONNECTION_ID in any order with duplicates and retire-prior-to, paths applying / borrowing / releasing / "
                       "being abandoned, RETIRE frames emitted per call compared exactly. distinct_nontrivial = distinct runs with a replacement id "
                       "issued (a) / at least one RETIRE frame emitted (b).")
    rep.cov["exhaustive"] = True
    rep.assumptions += ["a path has at most one outstanding borrow of its id (BorrowedCid) at a time",
                        "NEW_CONNECTION_ID frames satisfy retire_prior_to <= sequence (enforced by the frame parser)"]


def replay(path):
    v = json.load(open(path))
    if v["payload"].get("component") == "LocalCids":
        return common.generic_replay("C14", "LocalCids", "localcids-replay", "Trace_LocalCids", L_TR, path, l_ops,
                                     trace_consts={"Conns": '{"a", "b"}', "Shared": "<- MCShared"})
    wd = vlib.workdir("C14")
    ops = r_ops(v["payload"]["trace"])
    beh, trace = os.path.join(wd, "replay_beh.ndjson"), os.path.join(wd, "replay_trace.ndjson")
    open(beh, "w").write(json.dumps(ops) + "\n")
    vlib.vh(["remotecids-replay", LIMIT, beh, trace])
    r = vlib.validate_traces("C14", "Trace_RemoteCids", R_TR, trace, constants={"Limit": LIMIT}, nchunks=1)
    if r["rejected"]:
        print("  reproduced:", *common.signature("C14", "RemoteCids", r["rejected"][0]))
        print("VIOLATION property=C14 replay=%s" % path)
        return 1
    print("not reproduced on the current tree")
    return 0
