"""C17 — closing or failing a connection ends every pending operation.
specs: ConnLife.tla (contract over connection-state log, close calls, completion times, wire activity), MC_ConnLife (design +
liveness), Gen_ConnLife (close points x parked operations x loss of the CONNECTION_CLOSE x idle configurations), Trace_ConnLife.
Harness: vh-sim (whole stack over the in-memory network under virtual time)."""
import json, os, random
import vlib
from checks import sim

BINS = ["vh-sim"]
MC_CFG = ("SPECIFICATION MCSpec\nINVARIANT MCInv\nPROPERTY StateMonotone\nPROPERTY ErrorFixedOnce\nPROPERTY PendingEventuallyFails\n"
          "CHECK_DEADLOCK FALSE\n")
TRACE_CFG = "INIT TraceInit\nNEXT TraceNext\nINVARIANT SoftContract\nPOSTCONDITION TraceAccepted\nCHECK_DEADLOCK FALSE\n"


def is_hit(line):
    return '"op":"close"' in line or '"lingers":true' in line


def negotiated(a, b):
    v = [x for x in (a, b) if x > 0]
    return min(v) if v else 0


def scenario(seed, c, size=20000):
    cp, sp = {"idle_ms": c["idle_cli"]}, {"idle_ms": c["idle_srv"]}
    bi, uni = 2, 1
    if c["parked"] in ("streams", "both"):
        sp["streams_bidi"] = 1          # the client's second open_bi_stream parks on the stream limit
        bi = 3
    if c["parked"] in ("window", "both"):
        sp["bidi_remote"] = 1500        # writes park on the flow-control window
        sp["uni"] = 1200
        cp["bidi_local"] = 1500
    extra = {}
    if c["parked"] == "dgram":
        sp["max_datagram"] = 1200
        cp["max_datagram"] = 1200
        extra["dgram_reader"] = True
    close = {}
    if c["who"] in ("cli", "both"):
        close["cli"] = c["at"]
    if c["who"] in ("srv", "both"):
        close["srv"] = c["at"] + (3 if c["who"] == "both" else 0)
    lingers = c["who"] == "none"
    idle = negotiated(c["idle_cli"], c["idle_srv"])
    faults = {}
    if c["loss"] == "reorder":
        faults = {"delay": 35, "drop": 10, "until_ms": 100000}
    if c["loss"] == "close_lost":
        # everything sent from the moment of the close on is lost: the peer has to find out by its idle timer
        faults = {"blackhole_after_ms": c["at"]}
    sc = {"seed": seed, "bounded": False, "bi": bi, "uni": uni, "size": size if not lingers else 2000, "chunk": 4096,
          "faults": faults, "qlog": "capture", "qkeep": "life", "lat_ms": 5, "max_segments": 4,
          "cparams": cp, "sparams": sp, "close": close, "lingers": lingers, "idle_us": idle * 1000,
          "deadline_ms": 4 * max(idle, 1000) + 5000, "case": c, "cli_accepts": not lingers}
    sc.update(extra)
    return sc


def run(tier, rep):
    wd = vlib.workdir("C17")
    quick = tier == "quick"
    st = vlib.tlc_mc("C17", "MC_ConnLife", MC_CFG, {"MaxTime": 8 if quick else 10, "IdleTicks": 3},
                     need_actions=["Advance", "Confirm", "AppCloses", "LoseClose", "RecvClose", "IdleExpires", "Traffic"], workers=min(vlib.NCPU, 8))
    rep.add_mc("MC_ConnLife", st)
    beh = os.path.join(wd, "cases.ndjson")
    g = vlib.tlc_gen("C17", "Gen_ConnLife", sim.GEN_CFG, {}, beh, workers=1)
    rep.add_mc("Gen_ConnLife", g)
    scs = []
    with open(beh) as f:
        for i, line in enumerate(f):
            c = json.loads(line)
            for r in range(3 if c["loss"] == "reorder" else 1):      # the reordering is seeded: three networks per close point
                sc = scenario(vlib.seed() * 100000 + i * 10 + r, c, size=3000 if c["loss"] == "reorder" else 20000)
                if c["loss"] == "reorder":
                    sc["bi"], sc["uni"] = 4, 3
                scs.append(sc)
    if not quick:
        rnd = random.Random(vlib.seed())
        base_cases = [json.loads(l) for l in open(beh)]
        for i in range(1500):
            c = dict(rnd.choice(base_cases))
            if c["who"] != "none":
                c["at"] = rnd.randrange(0, 400)
            sc = scenario(vlib.seed() * 100000 + 10000 + i, c, size=rnd.choice([2000, 20000, 120000]))
            sc["faults"].update({"drop": rnd.choice([0, 5, 15]), "dup": rnd.choice([0, 5]), "until_ms": 100000})
            scs.append(sc)
    trace, _ = sim.run_sim("C17", "life", scs)
    sim.validate(rep, "C17", "ConnLife", "Trace_ConnLife", TRACE_CFG, trace, "tlc-close-points", is_hit)
    rep.cov["rule"] = ("scenarios enumerated by TLC (Gen_ConnLife): who closes (client / server / both racing 3 ms apart / nobody), close point "
                       "(0..120 ms: before, during, after the handshake, during the transfer), parked operations (open on the stream limit, write on "
                       "the window, reads, accepts, handshaked(), a datagram reader), CONNECTION_CLOSE lost or not, idle configurations (equal, unequal, one-sided); thorough adds seeded "
                       "random close times, sizes and loss. Each run is the real client+server stack under virtual time; the connection-state log, close "
                       "calls, completion time of every application task, packets emitted after closing and idle expiry are judged by TLC against "
                       "ConnLife.tla. distinct_nontrivial = distinct runs with an application close or an idle period.")
    rep.assumptions += ["'promptly' = within 1 virtual second on the closing endpoint, within negotiated idle timeout + 3 s on its peer",
                        "protocol-error closes are exercised only through the error returns checked by C11/C12 (frames cannot be forged at packet level here)"]


def replay(path):
    v = json.load(open(path))
    sc = v["payload"]["scenario"]
    trace, _ = sim.run_sim("C17", "replay", [sc], nproc=1)
    r = vlib.validate_traces("C17", "Trace_ConnLife", TRACE_CFG, trace, nchunks=1)
    if r["rejected"]:
        print("  reproduced:", *sim.classify("C17", "ConnLife", r["rejected"][0]))
        print("VIOLATION property=C17 replay=%s" % path)
        return 1
    print("not reproduced on the current tree")
    return 0
