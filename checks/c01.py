"""C01 — stream data is delivered reliably, in order, exactly once.
specs: Stream.tla (contract monitor), MC_Stream (design + liveness), Gen_Stream / Gen_StreamCover / Gen_StreamInject (environment
schedules), Trace_Stream; thorough tier additionally StreamSched.tla (the output scheduler C01's liveness clause depends on)."""
from checks import streams, ext_sched

BINS = ["vh"] + ext_sched.BINS


def run(tier, rep):
    streams.run("C01", tier, rep)
    if tier != "quick":
        # no starvation among streams: the scheduler part (quick: ./check X1)
        ext_sched.run_part("C01", tier, rep)


def replay(path):
    import json
    v = json.load(open(path))
    if "/StreamSched/" in v.get("signature", ""):
        return ext_sched.replay("C01", path)
    return streams.replay("C01", path)
