"""C01 — stream data is delivered reliably, in order, exactly once.
specs: Stream.tla (contract monitor), MC_Stream (design + liveness), Gen_Stream (environment schedules), Trace_Stream."""
from checks import streams


def run(tier, rep):
    streams.run("C01", tier, rep)


def replay(path):
    return streams.replay("C01", path)
