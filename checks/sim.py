"""Shared driver of the full-stack simulation (vh-sim): scenario construction, parallel execution, trace validation."""
import json, os, random, re, subprocess
from concurrent.futures import ThreadPoolExecutor
import vlib
from checks import common

BIN = "vh-sim"
GEN_CFG = "INIT GenInit\nNEXT GenNext\nINVARIANT EmitGen\nCHECK_DEADLOCK FALSE\n"


def faults_from_sched(sched):
    f = {"c2s": {}, "s2c": {}}
    for d, i, fate in sched:
        f[d][str(i)] = fate[0] if len(fate) == 1 else fate
    return f


def run_sim(pid, name, scenarios, nproc=None, raw=False, timeout=1800):
    """scenarios: list of dicts.  Returns path of the concatenated trace."""
    wd = vlib.workdir(pid)
    nproc = nproc or max(1, min(vlib.NCPU, 12, len(scenarios)))
    parts = [scenarios[i::nproc] for i in range(nproc)]
    files = []
    for i, part in enumerate(parts):
        sp = os.path.join(wd, "%s_sc_%02d.ndjson" % (name, i))
        with open(sp, "w") as f:
            for sc in part:
                f.write(json.dumps(sc) + "\n")
        files.append((sp, os.path.join(wd, "%s_tr_%02d.ndjson" % (name, i)), os.path.join(wd, "%s_raw_%02d.ndjson" % (name, i))))

    def work(t):
        sp, tp, rp = t
        args = ["run", sp, tp] + ([rp] if raw else [])
        p = vlib.vhx(BIN, args, timeout=timeout, check=False)
        return p.returncode, p.stderr[-2000:]

    with ThreadPoolExecutor(max_workers=nproc) as ex:
        res = list(ex.map(work, files))
    for rc, err in res:
        if rc != 0:
            raise vlib.ToolError("vh-sim failed: rc=%s %s" % (rc, err))
    trace = os.path.join(wd, "%s_trace.ndjson" % name)
    with open(trace, "w") as out:
        for _, tp, _ in files:
            with open(tp) as f:
                for line in f:
                    out.write(line)
            os.remove(tp)
    rawp = None
    if raw:
        rawp = os.path.join(wd, "%s_raw.ndjson" % name)
        with open(rawp, "w") as out:
            for _, _, rp in files:
                with open(rp) as f:
                    for line in f:
                        out.write(line)
                os.remove(rp)
    return trace, rawp


def classify(pid, comp, rej):
    run, at = rej["run"], rej["at"]
    ev = run[at - 1] if 0 < at <= len(run) else {"ev": "eof"}
    reason = rej["reason"]
    why = reason.split(": ", 1)[1] if ": " in reason else reason
    slug = re.sub(r"\(C\d\d[^)]*\)", "", why)
    slug = re.sub(r"[^A-Za-z0-9]+", "_", slug)[:70].strip("_")
    name = ev.get("ev") if ev.get("ev") != "app" else "app_" + str(ev.get("op"))
    if ev.get("ev") == "q":
        name = "q_" + str(ev.get("name"))
    return "%s/%s/%s/%s" % (pid, comp, name, slug), "event %d (%s): %s" % (at, json.dumps(ev)[:300], why)


def slim_run(run, at, keep=120):
    """keep the scenario, the events around the rejection and all application events"""
    lo = max(1, at - keep)
    out = [run[0]]
    for i, e in enumerate(run[1:], start=1):
        if lo <= i <= at + 5 or e.get("ev") in ("app", "final", "panic"):
            out.append(e)
    return out


def validate(rep, pid, comp, module, cfg, trace, part, is_hit, constants=None):
    r = vlib.validate_traces(pid, module, cfg, trace, constants=constants, nchunks=12, max_violations=40)
    rep.add_traces(part, r["runs"], common.count_nontrivial(trace, is_hit), r["events"])
    with open(trace) as f:
        lines = [l for _, l in zip(range(6), f)]
    rep.sample({"part": part, "first_events": [json.loads(x) for x in lines]})
    for rej in r["rejected"]:
        sig, what = classify(pid, comp, rej)
        rep.violation(sig, what, {"component": comp, "module": module, "rejected_at": rej["at"], "reason": rej["reason"],
                                  "scenario": rej["run"][0].get("sc"), "trace_excerpt": slim_run(rej["run"], rej["at"])})
    return r
